#!/usr/bin/env python3
"""Engine E1 front half: LLVM-14 IR (parsed by irparse) -> C for cbmc.

Every pointer is `char*`; GEPs are byte arithmetic from the DataLayout; integer ops keep the
nsw/nuw distinction (signed C ops where the compiler assumed no overflow, unsigned otherwise);
FP instructions and libm calls are macros (F_ADD(site,a,b), M_sin(site,x), ...) whose meaning is
chosen by the harness (stubs/fp_P.h precise, fp_U.h uninterpreted per call site, fp_N.h NaN taint);
C++ exceptions are a global flag vf_exc (type id) with explicit unwinding edges.
"""
import re, sys
from .irparse import *

EXC_IDS = {'@_ZTIN13GeographicLib13GeographicErrE': 1, '@_ZTISt9bad_alloc': 3, '@_ZTISt12out_of_range': 4, '@_ZTISt12length_error': 5,
           '@_ZTISt9exception': 6, '@_ZTISt13runtime_error': 7}
def exc_id(name): return EXC_IDS.get(name, 2)

LIBM1 = ('sin', 'cos', 'tan', 'atan', 'asin', 'acos', 'exp', 'log', 'sinh', 'cosh', 'tanh', 'asinh', 'atanh', 'acosh', 'log1p', 'expm1',
         'exp2', 'log2', 'sqrt', 'cbrt', 'fabs', 'floor', 'ceil', 'trunc', 'round', 'rint', 'nearbyint')
LIBM2 = ('atan2', 'pow', 'fmod', 'hypot', 'remainder', 'copysign', 'fmax', 'fmin', 'ldexp', 'maxnum', 'minnum', 'fdim')
SKIP_INTRINSICS = ('@llvm.lifetime', '@llvm.experimental.noalias', '@llvm.invariant', '@llvm.dbg', '@llvm.assume', '@llvm.prefetch', '@llvm.stacksave',
                   '@llvm.stackrestore')

class Cgen:
    def __init__(s, m, cut_throw=True, instrument_stores=False, conv_check=True, nsw_checks=False):
        s.m = m; s.cut_throw = cut_throw; s.instr_stores = instrument_stores; s.conv_check = conv_check; s.nsw_checks = nsw_checks
        s.out = []; s.used_ext = {}; s.site = 0; s.fop_sites = []; s.aggs = {}; s.agg_defs = []
        s.emitted = []; s.gused = set(); s.typed_alloca = True; s.export_types = []

    # ------------------------------------------------------------ types
    def ctype(s, t):
        t = resolve(t, s.m)
        if isinstance(t, IntT):
            if t.n == 1: return 'unsigned char'
            if t.n <= 8: return 'uint8_t'
            if t.n <= 16: return 'uint16_t'
            if t.n <= 32: return 'uint32_t'
            if t.n <= 64: return 'uint64_t'
            return 'unsigned __int128'
        if isinstance(t, FltT): return {'double': 'double', 'float': 'float', 'x86_fp80': 'long double'}[t.k]
        if isinstance(t, (PtrT, FnT)): return 'char*'
        if isinstance(t, VoidT): return 'void'
        if isinstance(t, (StructT, ArrT)): return s.aggtype(t)
        raise ValueError('ctype %r' % t)
    def aggtype(s, t):
        key = repr(t) + ('P' if getattr(t, 'packed', False) else '')
        if key not in s.aggs:
            name = 'agg_%d' % len(s.aggs); s.aggs[key] = name
            if isinstance(t, StructT):
                mem = ' '.join('%s f%d;' % (s.ctype(e), i) for i, e in enumerate(t.els)) or 'char dummy;'
                s.agg_defs.append('typedef struct %s{ %s } %s;' % ('__attribute__((packed)) ' if t.packed else '', mem, name))
            else:
                s.agg_defs.append('typedef struct { %s a[%d]; } %s;' % (s.ctype(t.el), max(1, t.n), name))
        return s.aggs[key]
    def sctype(s, t):
        n = resolve(t, s.m).n
        if n <= 8: return 'int8_t'
        if n <= 16: return 'int16_t'
        if n <= 32: return 'int32_t'
        if n <= 64: return 'int64_t'
        return '__int128'
    def nbits(s, t): return resolve(t, s.m).n

    # ------------------------------------------------------------ values
    def gref(s, name):
        s.gused.add(name)
        return '((char*)&G_%s)' % cname(name)
    def const_off(s, bt, ops):
        base = s.val(ops[0]); off = 0; t = bt; first = True
        for o in ops[1:]:
            if o.kind != 'int': raise ValueError('non-constant constant-GEP')
            if first: off += o.val * t.size(s.m); first = False
            else:
                rt = resolve(t, s.m)
                if isinstance(rt, StructT): off += rt.layout(s.m)[0][o.val]; t = rt.els[o.val]
                elif isinstance(rt, ArrT): off += o.val * rt.el.size(s.m); t = rt.el
                else: raise ValueError('gep into ' + repr(rt))
        return '(%s + %d)' % (base, off)
    def fltlit(s, v):
        f = v.f; k = resolve(v.ty, s.m).k if isinstance(resolve(v.ty, s.m), FltT) else 'double'
        if f != f: return 'VF_NAN'
        if f == float('inf'): return 'VF_INF'
        if f == float('-inf'): return '(-VF_INF)'
        if k == 'float': return '((float)%s)' % f.hex()
        if k == 'x86_fp80': return '((long double)%s)' % f.hex()
        return '(%s)' % f.hex()
    def val(s, v):
        m = s.m; k = v.kind
        if k == 'local': return 'v_' + cname(v.name)
        if k == 'global':
            if v.name in m.funcs or v.name in m.decls: return '((char*)&FP_%s)' % cname(v.name) if False else '((char*)0 + %d)' % (0x1000 + (hash(v.name) & 0xfff) * 16)
            return s.gref(v.name)
        if k == 'int':
            t = resolve(v.ty, m); n = t.n if isinstance(t, IntT) else 64
            return '((%s)%dULL)' % (s.ctype(v.ty), v.val & ((1 << n) - 1))
        if k == 'null': return '((char*)0)'
        if k == 'zero':
            t = resolve(v.ty, m)
            if isinstance(t, (StructT, ArrT)): return '((%s){0})' % s.ctype(t)
            return '((%s)0)' % s.ctype(v.ty)
        if k == 'flt': return s.fltlit(v)
        if k == 'cgep': return s.const_off(v.base_ty, v.ops)
        if k == 'ccast':
            if v.op == 'ptrtoint': return '((uint64_t)%s)' % s.val(v.v)
            if v.op == 'inttoptr': return '((char*)%s)' % s.val(v.v)
            return s.val(v.v)
        if k == 'cbin':
            cop = {'add': '+', 'sub': '-', 'mul': '*', 'and': '&', 'or': '|', 'xor': '^', 'shl': '<<', 'lshr': '>>'}[v.op]
            return '((%s)(%s %s %s))' % (s.ctype(v.ty), s.val(v.a), cop, s.val(v.b))
        if k == 'agg':
            t = resolve(v.ty, m)
            if isinstance(t, StructT): return '((%s){%s})' % (s.ctype(t), ', '.join(s.val(e) for e in v.els))
            return '((%s){{%s}})' % (s.ctype(t), ', '.join(s.val(e) for e in v.els))
        raise ValueError('val ' + k)

    # ------------------------------------------------------------ globals
    def ginit_expr(s, ty, init):
        """C initialiser expression (brace form) for a global of IR type ty"""
        m = s.m; rt = resolve(ty, m)
        if init.kind == 'zero': return '{0}' if isinstance(rt, (StructT, ArrT)) else '0'
        if init.kind == 'cstr':
            bs = unesc(init.s); return '{{%s}}' % ','.join(str(b if b < 128 else b - 256) for b in bs)
        if init.kind == 'agg':
            if isinstance(rt, StructT): return '{%s}' % ', '.join(s.ginit_expr(t, e) for t, e in zip(rt.els, init.els))
            return '{{%s}}' % ', '.join(s.ginit_expr(rt.el, e) for e in init.els)
        return s.val(init)
    def emit_global(s, name):
        m = s.m; ty, init, kind, ext = m.globals[name]
        cn = 'G_' + cname(name); rt = resolve(ty, m)
        if ext or init is None:
            try: sz = max(8, rt.size(m))
            except Exception: sz = 64
            return 'static __attribute__((aligned(16))) char %s[%d]; /* external */' % (cn, sz)
        try:
            if isinstance(rt, (StructT, ArrT)):
                return 'static %s %s = %s;' % (s.ctype(rt), cn, s.ginit_expr(ty, init))
            return 'static %s %s = %s;' % (s.ctype(rt), cn, s.val(init))
        except Exception as e:
            return 'static __attribute__((aligned(16))) char %s[%d]; /* initialiser not translated: %s */' % (cn, max(8, rt.size(m)), str(e)[:60])

    # ------------------------------------------------------------ functions
    def proto(s, f):
        args = ', '.join('%s v_%s' % (s.ctype(t), cname(n)) for t, n in f.args)
        return '%s F_%s(%s)' % (s.ctype(f.ret), cname(f.name), args or 'void')

    def throw_type(s, f, bn):
        seen = set(); todo = [bn]
        while todo:
            cur = todo.pop()
            if cur in seen or cur not in f.bmap: continue
            seen.add(cur)
            for I in f.bmap[cur]:
                if I.op in ('call', 'invoke') and I.callee == '@__cxa_throw':
                    a = I.args[1]
                    while a.kind == 'ccast': a = a.v
                    return a.name if a.kind == 'global' else '?'
                if I.op == 'invoke': todo.append(I.normal)
                if I.op == 'br':
                    todo.append(I.t)
                    if I.f: todo.append(I.f)
        return '?'

    def block_cut(s, ins):
        return s.cut_throw and any(I.op in ('call', 'invoke') and I.callee == '@__cxa_allocate_exception' for I in ins)

    def reachable_blocks(s, f):
        succ = {}
        for bn, ins in f.blocks:
            succ[bn] = []
            if s.block_cut(ins): continue
            for I in ins:
                if I.op == 'br': succ[bn] += [I.t] + ([I.f] if I.f else [])
                elif I.op == 'switch': succ[bn] += [I.dflt] + [t for _, t in I.cases]
                elif I.op == 'invoke': succ[bn] += [I.normal, I.unwind]
        reach = set(); todo = ['entry']
        while todo:
            b = todo.pop()
            if b in reach: continue
            reach.add(b); todo += succ.get(b, [])
        return reach

    def rpo_blocks(s, f, reach):
        """blocks in reverse post-order, so that the only textually backward gotos are real loop back-edges
        (cbmc treats every backward goto as a loop to unwind)"""
        succ = {}
        for bn, ins in f.blocks:
            succ[bn] = []
            if bn not in reach or s.block_cut(ins): continue
            for I in ins:
                if I.op == 'br': succ[bn] += [I.t] + ([I.f] if I.f else [])
                elif I.op == 'switch': succ[bn] += [I.dflt] + [t for _, t in I.cases]
                elif I.op == 'invoke': succ[bn] += [I.normal, I.unwind]
        order = []; seen = set()
        stack = [('entry', iter(succ.get('entry', [])))]; seen.add('entry')
        while stack:
            b, it = stack[-1]
            adv = False
            for n in it:
                if n not in seen and n in reach:
                    seen.add(n); stack.append((n, iter(succ.get(n, [])))); adv = True; break
            if not adv:
                order.append(b); stack.pop()
        order.reverse()
        return [(bn, f.bmap[bn]) for bn in order]

    def callees(s, f):
        out = set(); reach = s.reachable_blocks(f)
        for bn, ins in f.blocks:
            if bn not in reach or s.block_cut(ins): continue
            for I in ins:
                if I.op in ('call', 'invoke') and not I.indirect: out.add(I.callee)
        return out

    def closure(s, roots, stop=()):
        seen = []; todo = list(roots)
        while todo:
            n = todo.pop()
            if n in seen or n in stop: continue
            if n not in s.m.funcs: continue
            seen.append(n)
            todo += [c for c in s.callees(s.m.funcs[n]) if c in s.m.funcs]
        return seen

    def emit_func(s, f):
        m = s.m; body = []; decls = {}
        def decl(name, ty):
            decls['v_' + cname(name)] = s.ctype(ty)
        phis = {}
        for bn, ins in f.blocks:
            for I in ins:
                if I.op == 'phi':
                    phis.setdefault(bn, []).append(I); decl(I.dest, I.ty); decls['v_' + cname(I.dest) + '_in'] = s.ctype(I.ty)
        def goto(frm, to):
            r = []
            for I in phis.get(to, []):
                for v, p in I.inc:
                    if pred_is(frm, p, f):
                        r.append('v_%s_in = %s;' % (cname(I.dest), s.val(v))); break
            r.append('goto L_%s;' % cname(to))
            return ' '.join(r)
        isvoid = isinstance(f.ret, VoidT)
        rt = resolve(f.ret, m)
        retzero = 'return;' if isvoid else ('return (%s){0};' % s.ctype(f.ret) if isinstance(rt, (StructT, ArrT)) else 'return (%s)0;' % s.ctype(f.ret))
        reach = s.reachable_blocks(f)
        for bn, ins in s.rpo_blocks(f, reach):
            body.append('L_%s: ;' % cname(bn))
            for I in phis.get(bn, []):
                body.append('  v_%s = v_%s_in;' % (cname(I.dest), cname(I.dest)))
            if s.block_cut(ins):
                tid = s.throw_type(f, bn)
                body.append('  vf_exc = %d; /* throw %s (message construction cut) */ %s' % (exc_id(tid), tid, retzero))
                continue
            for I in ins:
                try:
                    c = s.instr(f, bn, I, decl, goto, retzero)
                except Exception as e:
                    raise RuntimeError('in %s: %s\n  %s: %s' % (f.name, I.text, type(e).__name__, e))
                if c: body.append('  ' + c)
        # drop allocas that only the cut (throw) blocks used: fewer addressed objects for cbmc
        joined = '\n'.join(body)
        keep = []
        for ln in body:
            mo = re.match(r'\s+__attribute__\(\(aligned\(16\)\)\) \S+ a_(\w+?)(\[\d+\])?; (v_\w+) = ', ln)
            if mo and len(re.findall(r'\b%s\b' % re.escape(mo.group(3)), joined)) <= 1:
                decls.pop(mo.group(3), None); continue
            keep.append(ln)
        body = keep
        o = [s.proto(f) + ' {']
        for k, v in decls.items(): o.append('  %s %s;' % (v, k))
        o.append('  goto L_entry;')
        o.extend(body)
        o.append('}')
        return '\n'.join(o)

    BIN = {'add': '+', 'sub': '-', 'mul': '*', 'and': '&', 'or': '|', 'xor': '^', 'shl': '<<', 'lshr': '>>', 'udiv': '/', 'urem': '%'}
    ICMP = {'eq': '==', 'ne': '!=', 'ugt': '>', 'uge': '>=', 'ult': '<', 'ule': '<=', 'sgt': '>', 'sge': '>=', 'slt': '<', 'sle': '<='}
    FCMP = {'oeq': 'F_OEQ', 'ogt': 'F_OGT', 'oge': 'F_OGE', 'olt': 'F_OLT', 'ole': 'F_OLE', 'one': 'F_ONE', 'ord': 'F_ORD',
            'ueq': 'F_UEQ', 'ugt': 'F_UGT', 'uge': 'F_UGE', 'ult': 'F_ULT', 'ule': 'F_ULE', 'une': 'F_UNE', 'uno': 'F_UNO'}

    def newsite(s, kind):
        s.site += 1; s.fop_sites.append((kind, s.site)); return s.site

    def instr(s, f, bn, I, decl, goto, retzero):
        m = s.m; op = I.op
        D = 'v_' + cname(I.dest) if I.dest else None
        if op == 'phi': return None
        if op in BINOPS:
            decl(I.dest, I.ty); ct = s.ctype(I.ty); n = s.nbits(I.ty); A, B = s.val(I.a), s.val(I.b)
            if isinstance(resolve(I.ty, m), ArrT): raise ValueError('vector integer op')
            if op in ('sdiv', 'srem'):
                st = s.sctype(I.ty); cop = '/' if op == 'sdiv' else '%'
                return '%s = (%s)((%s)%s %s (%s)%s);' % (D, ct, st, A, cop, st, B)
            if op == 'ashr':
                st = s.sctype(I.ty); return '%s = (%s)((%s)%s >> %s);' % (D, ct, st, A, B)
            if n == 1:
                return '%s = (%s %s %s) & 1;' % (D, A, s.BIN[op], B)
            if s.nsw_checks and 'nsw' in I.flags and op in ('add', 'sub', 'mul') and n >= 32:
                st = s.sctype(I.ty)
                return '%s = (%s)((%s)%s %s (%s)%s);' % (D, ct, st, A, s.BIN[op], st, B)
            if n < 32 and op in ('add', 'sub', 'mul', 'shl'):
                return '%s = (%s)((uint32_t)%s %s (uint32_t)%s);' % (D, ct, A, s.BIN[op], B)
            return '%s = (%s)(%s %s %s);' % (D, ct, A, s.BIN[op], B)
        if op in FBINOPS:
            if isinstance(resolve(I.ty, m), ArrT): raise ValueError('vector fp op')
            decl(I.dest, I.ty); k = s.newsite(op)
            sfx = {'double': '', 'float': 'f', 'x86_fp80': 'l'}[resolve(I.ty, m).k]
            return '%s = F_%s%s(%d, %s, %s);' % (D, op[1:].upper(), sfx.upper(), k, s.val(I.a), s.val(I.b))
        if op == 'fneg':
            decl(I.dest, I.ty); return '%s = -%s;' % (D, s.val(I.a))
        if op == 'icmp':
            decl(I.dest, IntT(1)); rt = resolve(I.ty, m); A, B = s.val(I.a), s.val(I.b)
            if isinstance(rt, PtrT):
                if I.cc in ('eq', 'ne'): return '%s = (%s %s %s);' % (D, A, s.ICMP[I.cc], B)
                return '%s = ((uint64_t)%s %s (uint64_t)%s);' % (D, A, s.ICMP[I.cc], B) if I.cc[0] == 'u' else '%s = ((int64_t)%s %s (int64_t)%s);' % (D, A, s.ICMP[I.cc], B)
            if I.cc[0] == 's':
                st = s.sctype(I.ty); return '%s = ((%s)%s %s (%s)%s);' % (D, st, A, s.ICMP[I.cc], st, B)
            return '%s = (%s %s %s);' % (D, A, s.ICMP[I.cc], B)
        if op == 'fcmp':
            decl(I.dest, IntT(1))
            if I.cc == 'false': return '%s = 0;' % D
            if I.cc == 'true': return '%s = 1;' % D
            return '%s = %s(%s, %s);' % (D, s.FCMP[I.cc], s.val(I.a), s.val(I.b))
        if op in CASTS:
            decl(I.dest, I.to); ct = s.ctype(I.to); A = s.val(I.a); r1, r2 = resolve(I.ty, m), resolve(I.to, m)
            if op == 'sext':
                if r1.n == 1: return '%s = (%s)(-(%s)(%s & 1));' % (D, ct, s.sctype(I.to), A)
                return '%s = (%s)(%s)(%s)%s;' % (D, ct, s.sctype(I.to), s.sctype(I.ty), A)
            if op == 'zext': return '%s = (%s)%s;' % (D, ct, A)
            if op == 'trunc':
                if r2.n == 1: return '%s = %s & 1;' % (D, A)
                return '%s = (%s)%s;' % (D, ct, A)
            if op == 'sitofp': return '%s = (%s)(%s)%s;' % (D, ct, s.sctype(I.ty), A)
            if op == 'uitofp': return '%s = (%s)%s;' % (D, ct, A)
            if op in ('fptosi', 'fptoui'):
                n = r2.n
                if op == 'fptosi':
                    lo, hi = '-0x1p%d' % (n - 1), '0x1p%d' % (n - 1)
                    chk = 'VF_CONV_CHECK((%s) > (%s - 1.0) && (%s) < %s, "float->int%d conversion in range");' % (A, lo, A, hi, n) if n < 53 else \
                          'VF_CONV_CHECK((%s) >= %s && (%s) < %s, "float->int%d conversion in range");' % (A, lo, A, hi, n)
                    return '%s %s = (%s)VF_FPTOSI%d(%s); VF_CONV_REC((%s)%s);' % (chk, D, ct, (32 if n <= 32 else 64), A, s.sctype(I.to), D)
                chk = 'VF_CONV_CHECK((%s) > -1.0 && (%s) < 0x1p%d, "float->uint%d conversion in range");' % (A, A, n, n)
                return '%s %s = (%s)VF_FPTOUI%d(%s); VF_CONV_REC(%s);' % (chk, D, ct, (32 if n <= 32 else 64), A, D)
            if op in ('fpext', 'fptrunc'): return '%s = (%s)%s;' % (D, ct, A)
            if op == 'bitcast':
                if isinstance(r1, FltT) and isinstance(r2, IntT): return '%s = %s(%s);' % (D, 'vf_d2bits' if r1.k == 'double' else 'vf_f2bits', A)
                if isinstance(r1, IntT) and isinstance(r2, FltT): return '%s = %s(%s);' % (D, 'vf_bits2d' if r2.k == 'double' else 'vf_bits2f', A)
                if isinstance(r1, (PtrT, FnT)) and isinstance(r2, (PtrT, FnT)): return '%s = %s;' % (D, A)
                raise ValueError('bitcast %r -> %r' % (r1, r2))
            if op == 'ptrtoint': return '%s = (%s)(uint64_t)%s;' % (D, ct, A)
            if op == 'inttoptr': return '%s = (char*)(uint64_t)%s;' % (D, A)
            return '%s = (%s)%s;' % (D, ct, A)
        if op == 'freeze':
            decl(I.dest, I.ty); return '%s = %s;' % (D, s.val(I.a))
        if op == 'alloca':
            n = 1
            if I.n is not None:
                if I.n.kind != 'int': raise ValueError('variable-size alloca')
                n = I.n.val
            decl(I.dest, PtrT(I.ty)); sz = max(1, I.ty.size(m)) * n
            rt = resolve(I.ty, m)
            if s.typed_alloca and n == 1 and not isinstance(rt, (OpaqueT, FnT)) and rt.size(m) > 0:
                # typed object: lets cbmc resolve field accesses at constant offsets without byte-level reconstruction
                return '__attribute__((aligned(16))) %s a_%s; %s = (char*)&a_%s;' % (s.ctype(I.ty), cname(I.dest), D, cname(I.dest))
            return '__attribute__((aligned(16))) char a_%s[%d]; %s = a_%s;' % (cname(I.dest), sz, D, cname(I.dest))
        if op == 'load':
            decl(I.dest, I.ty)
            return '%s = *(%s*)%s;' % (D, s.ctype(I.ty), s.val(I.p))
        if op == 'store':
            pre = ''
            if s.instr_stores: pre = 'VF_WRITE(%s, %d); ' % (s.val(I.p), resolve(I.ty, m).size(m))
            return '%s*(%s*)%s = %s;' % (pre, s.ctype(I.ty), s.val(I.p), s.val(I.v))
        if op == 'getelementptr':
            decl(I.dest, PtrT(I.bt)); terms = []; t = I.bt; first = True; konst = 0
            for o in I.ops[1:]:
                if first:
                    sz = t.size(m); first = False
                    if o.kind == 'int': konst += o.val * sz
                    else: terms.append('(int64_t)%s * %d' % (s.sidx(o), sz))
                else:
                    rt = resolve(t, m)
                    if isinstance(rt, StructT):
                        konst += rt.layout(m)[0][o.val]; t = rt.els[o.val]
                    elif isinstance(rt, ArrT):
                        if o.kind == 'int': konst += o.val * rt.el.size(m)
                        else: terms.append('(int64_t)%s * %d' % (s.sidx(o), rt.el.size(m)))
                        t = rt.el
                    else: raise ValueError('gep ' + repr(rt))
            if konst or not terms: terms.append(str(konst))
            return '%s = %s + (%s);' % (D, s.val(I.ops[0]), ' + '.join(terms))
        if op == 'select':
            decl(I.dest, I.ty); return '%s = %s ? %s : %s;' % (D, s.val(I.c), s.val(I.a), s.val(I.b))
        if op == 'br':
            if I.c is None: return goto(bn, I.t)
            return 'if (%s) { %s } else { %s }' % (s.val(I.c), goto(bn, I.t), goto(bn, I.f))
        if op == 'switch':
            r = 'switch (%s) {' % s.val(I.v)
            for cv, tg in I.cases: r += ' case %s: { %s }' % (s.val(cv), goto(bn, tg))
            r += ' default: { %s } }' % goto(bn, I.dflt)
            return r
        if op == 'ret':
            if I.v is None: return 'return;'
            return 'return %s;' % s.val(I.v)
        if op == 'unreachable': return 'VF_UNREACHABLE(); ' + retzero
        if op == 'resume':
            return 'vf_exc = %s.f1; %s' % (s.val(I.v), retzero)
        if op == 'landingpad':
            decl(I.dest, I.ty)
            return '%s.f0 = (char*)vf_excobj; %s.f1 = (uint32_t)vf_exc; vf_caught = vf_exc; vf_exc = 0;' % (D, D)
        if op == 'extractvalue':
            t = I.ty; acc = s.val(I.a)
            for i in I.idx:
                rt = resolve(t, m)
                if isinstance(rt, StructT): acc += '.f%d' % i; t = rt.els[i]
                else: acc += '.a[%d]' % i; t = rt.el
            decl(I.dest, t); return '%s = %s;' % (D, acc)
        if op == 'insertvalue':
            decl(I.dest, I.ty); t = I.ty; acc = D
            for i in I.idx:
                rt = resolve(t, m)
                if isinstance(rt, StructT): acc += '.f%d' % i; t = rt.els[i]
                else: acc += '.a[%d]' % i; t = rt.el
            init = '%s = %s; ' % (D, s.val(I.a)) if not (I.a.kind == 'zero' and getattr(I.a, 'undef', False)) else ''
            return '%s%s = %s;' % (init, acc, s.val(I.v))
        if op == 'atomicrmw':
            decl(I.dest, I.ty); ct = s.ctype(I.ty); P = '(*(%s*)%s)' % (ct, s.val(I.p)); cop = {'add': '+', 'sub': '-', 'and': '&', 'or': '|', 'xor': '^'}.get(I.rmw)
            pre = 'VF_WRITE(%s, %d); ' % (s.val(I.p), resolve(I.ty, m).size(m)) if s.instr_stores else ''
            if I.rmw == 'xchg': return '%s%s = %s; %s = %s;' % (pre, D, P, P, s.val(I.v))
            if cop is None: raise ValueError('atomicrmw ' + I.rmw)
            return '%s%s = %s; %s = (%s)(%s %s %s);' % (pre, D, P, P, ct, D, cop, s.val(I.v))
        if op == 'cmpxchg':
            decl(I.dest, I.ty) if False else None
            raise ValueError('cmpxchg')
        if op == 'fence': return None
        if op in ('call', 'invoke'):
            return s.call(f, bn, I, decl, goto, retzero)
        raise ValueError('opcode ' + op)

    def sidx(s, o):
        if o.kind == 'int': return str(o.val)
        return '(%s)%s' % (s.sctype(o.ty), s.val(o))

    def call(s, f, bn, I, decl, goto, retzero):
        m = s.m; D = 'v_' + cname(I.dest) if I.dest else None
        if I.indirect:
            c = '__CPROVER_assert(0, "indirect call not modelled"); __CPROVER_assume(0);'
            if D: decl(I.dest, I.rty)
            return c
        name = I.callee; bare = name.lstrip('@')
        args = [s.val(a) for a in I.args]
        isvoid = isinstance(I.rty, VoidT)
        c = None; maythrow = True
        if name.startswith(SKIP_INTRINSICS):
            if D: decl(I.dest, I.rty); return '%s = 0;' % D
            return None
        if name.startswith('@llvm.memcpy') or name.startswith('@llvm.memmove'):
            pre = 'VF_WRITE(%s, %s); ' % (args[0], args[2]) if s.instr_stores else ''
            return '%sVF_MEMMOVE(%s, %s, %s);' % (pre, args[0], args[1], args[2])
        if name.startswith('@llvm.memset'):
            pre = 'VF_WRITE(%s, %s); ' % (args[0], args[2]) if s.instr_stores else ''
            return '%sVF_MEMSET(%s, %s, %s);' % (pre, args[0], args[1], args[2])
        if name == '@llvm.eh.typeid.for':
            a = I.args[0]
            while a.kind == 'ccast': a = a.v
            decl(I.dest, I.rty); return '%s = %d;' % (D, exc_id(a.name))
        mo = re.match(r'@llvm\.(\w+?)\.(f32|f64|f80|i\d+)(\..*)?$', name)
        if mo:
            base, ty = mo.group(1), mo.group(2)
            if ty[0] == 'f':
                sfx = {'f32': 'f', 'f64': '', 'f80': 'l'}[ty]
                if base in LIBM1 or base in LIBM2 or base in ('fma', 'fmuladd'):
                    decl(I.dest, I.rty); k = s.newsite(base)
                    return '%s = M_%s%s(%d, %s);' % (D, base, sfx, k, ', '.join(args))
            else:
                n = int(ty[1:]); decl(I.dest, I.rty); ct = s.ctype(I.rty); st = s.sctype(I.rty)
                A = args[0]; B = args[1] if len(args) > 1 else None
                if base == 'abs': return '%s = (%s)((%s)%s < 0 ? (%s)(0 - %s) : %s);' % (D, ct, st, A, ct, A, A)
                if base == 'smax': return '%s = ((%s)%s > (%s)%s) ? %s : %s;' % (D, st, A, st, B, A, B)
                if base == 'smin': return '%s = ((%s)%s < (%s)%s) ? %s : %s;' % (D, st, A, st, B, A, B)
                if base == 'umax': return '%s = (%s > %s) ? %s : %s;' % (D, A, B, A, B)
                if base == 'umin': return '%s = (%s < %s) ? %s : %s;' % (D, A, B, A, B)
                if base == 'bswap' and n == 16: return '%s = (uint16_t)(((%s) >> 8) | ((%s) << 8));' % (D, A, A)
                if base == 'bswap' and n == 32: return '%s = __builtin_bswap32(%s);' % (D, A)
                if base == 'bswap' and n == 64: return '%s = __builtin_bswap64(%s);' % (D, A)
                if base in ('ctlz', 'cttz', 'ctpop'): return '%s = (%s)VF_%s%d(%s);' % (D, ct, base.upper(), n, A)
            raise ValueError('intrinsic ' + name)
        # libm by plain name
        for sfx in ('', 'f', 'l'):
            b = bare[:-len(sfx)] if sfx and bare.endswith(sfx) else (bare if not sfx else None)
            if b and (b in LIBM1 or b in LIBM2 or b in ('fma', 'remquo', 'frexp', 'modf')) and name not in m.funcs:
                if b != bare and bare in LIBM1 + LIBM2: continue
                k = s.newsite(b)
                call = 'M_%s%s(%d, %s)' % (b, sfx, k, ', '.join(args))
                if D: decl(I.dest, I.rty); return '%s = %s;' % (D, call)
                return call + ';'
        if name not in m.funcs:
            s.used_ext[name] = (I.rty, [a.ty for a in I.args]) if not getattr(I, 'variadic', False) else (I.rty, [I.args[0].ty, '...'])
        call = 'F_%s(%s)' % (cname(name), ', '.join(args))
        if D and not isvoid: decl(I.dest, I.rty); c = '%s = %s;' % (D, call)
        else:
            c = call + ';'
            if D: decl(I.dest, IntT(32))
        if I.op == 'invoke':
            return c + ' if (vf_exc) { %s } else { %s }' % (goto(bn, I.unwind), goto(bn, I.normal))
        return c + ' if (vf_exc) %s' % retzero

    # ------------------------------------------------------------ driver
    def generate(s, roots, stop=(), extra_globals=()):
        """emit C for the call closure of `roots` (functions in `stop` and all externals become prototypes only)"""
        m = s.m
        fs = s.closure(roots, stop)
        bodies = [s.emit_func(m.funcs[n]) for n in fs]
        protos = [s.proto(m.funcs[n]) + ';' for n in fs]
        # prototypes for functions referenced but not emitted (stubs provide them or VF_EXTERNAL)
        ext = []
        for name, (rty, atys) in sorted(s.used_ext.items()):
            if name in fs: continue
            ext.append((name, '%s F_%s(%s);' % (s.ctype(rty), cname(name), ', '.join('...' if t == '...' else s.ctype(t) for t in atys) or 'void')))
        for g in extra_globals: s.gused.add(g)
        # globals: transitive closure over initialisers referencing other globals
        gl = []; todo = sorted(s.gused); seen = set()
        while todo:
            g = todo.pop()
            if g in seen or g not in m.globals: continue
            seen.add(g)
            before = set(s.gused)
            txt = s.emit_global(g)
            gl.append((g, txt))
            todo += [x for x in s.gused - before]
        # order globals so that referenced ones come first (forward declare all as needed)
        out = ['/* generated by vfw/cgen.py from clang IR -- do not edit */']
        exports = []
        for tn in s.export_types:
            if tn in m.types: exports.append('typedef %s VT_%s; enum { VT_SIZE_%s = %d };' % (s.ctype(NamedT(tn)), cname(tn), cname(tn), resolve(NamedT(tn), m).size(m)))
        out += s.agg_defs + exports
        fw = []
        for g, txt in gl:
            mo = re.match(r'static (.*?) (G_\w+)(\[\d+\])?( = |;)', txt)
        out += ['VF_DECL_FOP(%s, %d)' % ks for ks in s.fop_sites]
        # tentative definitions first so that initialisers may take addresses in any order
        for g, txt in gl:
            head = txt.split(' = ')[0].rstrip(';')
            out.append(head + ';')
        out += [txt for g, txt in gl if ' = ' in txt]
        out += protos
        out += ['/* externals (bodies come from stubs/ or are VF_EXTERNAL-guarded) */']
        out += [p for _, p in ext]
        out += bodies
        if s.instr_stores:
            # writable statics of the translation unit (for the shared-write-set obligations): everything that is not a constant
            # and not an initialisation guard; function-local statics (_ZZ...) may only be written inside their guard region
            stat = [g for g, _ in gl if m.globals[g][2] == 'global' and not g.startswith('@_ZGV')]
            out.append('int vf_is_static(char* p) { return %s; }' % (' || '.join('__CPROVER_same_object(p, (char*)&G_%s)' % cname(g) for g in stat) or '0'))
            out.append('/* writable statics: %s */' % ', '.join(stat))
        s.emitted = fs; s.externals = [n for n, _ in ext]
        return '\n'.join(out) + '\n'
