#!/usr/bin/env python3
"""exact multivariate polynomials over Q, usable as the value domain of the E2 executor (oracle 2: the repository's own
higher-order tables are executed to exact polynomials and truncated; the solver then compares them with the compiled order)"""
from fractions import Fraction

class Poly:
    _vf_poly = True
    __slots__ = ('d', 'nv')
    def __init__(s, nv, d=None): s.nv = nv; s.d = d or {}
    @staticmethod
    def var(nv, i):
        m = [0] * nv; m[i] = 1; return Poly(nv, {tuple(m): Fraction(1)})
    @staticmethod
    def const(nv, c):
        c = Fraction(c); return Poly(nv, {(0,) * nv: c} if c else {})
    def _co(s, o):
        if isinstance(o, Poly): return o
        if isinstance(o, (int, Fraction)): return Poly.const(s.nv, o)
        try:
            import z3
            if z3.is_rational_value(o): return Poly.const(s.nv, Fraction(o.numerator_as_long(), o.denominator_as_long()))
        except Exception: pass
        raise TypeError('cannot coerce %r to Poly' % (o,))
    def __add__(s, o):
        o = s._co(o); r = dict(s.d)
        for k, v in o.d.items():
            x = r.get(k, 0) + v
            if x: r[k] = x
            else: r.pop(k, None)
        return Poly(s.nv, r)
    __radd__ = __add__
    def __neg__(s): return Poly(s.nv, {k: -v for k, v in s.d.items()})
    def __sub__(s, o): return s + (-s._co(o))
    def __rsub__(s, o): return s._co(o) - s
    def __mul__(s, o):
        o = s._co(o); r = {}
        for k1, v1 in s.d.items():
            for k2, v2 in o.d.items():
                k = tuple(a + b for a, b in zip(k1, k2)); x = r.get(k, 0) + v1 * v2
                if x: r[k] = x
                else: r.pop(k, None)
        return Poly(s.nv, r)
    __rmul__ = __mul__
    def __truediv__(s, o):
        o = s._co(o)
        if len(o.d) == 1 and (0,) * s.nv in o.d:
            c = o.d[(0,) * s.nv]; return Poly(s.nv, {k: v / c for k, v in s.d.items()})
        raise TypeError('division by a non-constant polynomial')
    def __rtruediv__(s, o): raise TypeError('division by a polynomial')
    def trunc(s, maxdeg): return Poly(s.nv, {k: v for k, v in s.d.items() if sum(k) <= maxdeg})
    def coeffs(s): return dict(s.d)
    def __repr__(s): return 'Poly(%r)' % s.d
