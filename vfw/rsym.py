#!/usr/bin/env python3
"""Engine E2: symbolic execution of clang IR over the reals (z3).

double/float values are z3 Real terms (exact real meaning of the operations
the code performs); integers are concrete Python ints or z3 bit-vectors;
control flow forks on symbolic conditions (depth first by re-execution with
a decision prefix); pointers are (object, concrete byte offset).
What the real domain drops: NaN (`fcmp uno` false), infinities, signed zero
(`signbit(x)` is `x<0`), rounding.  Anything the executor cannot interpret
raises Unsupported -> the obligation is *inconclusive*, never a pass.
"""
import re, sys, time
from fractions import Fraction
import z3
from .irparse import *

class Unsupported(Exception): pass
class BoundExceeded(Exception): pass

class Ptr:
    __slots__ = ('obj', 'off')
    def __init__(s, obj, off): s.obj = obj; s.off = off
    def __repr__(s): return 'Ptr(%s+%s)' % (s.obj, s.off)

def RV(x):
    if isinstance(x, Fraction): return z3.RealVal(str(x))
    if isinstance(x, float): return z3.RealVal(str(Fraction(x)))
    return z3.RealVal(x)

def simplest_rational(f):
    """[REAL] reading of a floating-point literal: a literal such as 1/real(3) is folded by the compiler to the nearest double;
    its source meaning is the simplest rational in the literal's rounding interval.  Dyadic values with small denominators
    are kept as they are; a non-dyadic reading is accepted only if its denominator is below 2^26."""
    import math
    x = Fraction(f)
    if x.denominator <= (1 << 20): return x
    m, e = math.frexp(f); ulp = Fraction(2) ** (e - 53)
    lo, hi = x - ulp / 2, x + ulp / 2
    if lo > hi: lo, hi = hi, lo
    neg = hi < 0
    if neg: lo, hi = -hi, -lo
    # simplest fraction in [lo, hi] by continued fractions
    def simplest(lo, hi):
        fl = lo.numerator // lo.denominator
        if fl + 1 <= hi or lo == fl: return Fraction(fl if lo == fl else fl + 1)
        r = simplest(1 / (hi - fl), 1 / (lo - fl))
        return fl + 1 / r
    try: r = simplest(lo, hi)
    except RecursionError: return x
    if r.denominator >= (1 << 26): return x
    return -r if neg else r

def is_sym(x): return isinstance(x, z3.ExprRef)
def is_conc_real(x): return z3.is_rational_value(x)
def frac(x):
    return Fraction(x.numerator_as_long(), x.denominator_as_long())

def rsimp(x):
    return x

def _isp(x): return getattr(x, '_vf_poly', False)
def negof(t):
    """u if t is syntactically -u (so that sign bookkeeping such as (-x/d)*(-1) normalises to x/d), else None"""
    if not is_sym(t) or not z3.is_app(t): return None
    k = t.decl().kind()
    if k == z3.Z3_OP_UMINUS: return t.arg(0)
    if k == z3.Z3_OP_MUL and t.num_args() == 2 and z3.is_rational_value(t.arg(0)) and frac(t.arg(0)) == -1: return t.arg(1)
    return None
def rneg(a):
    if is_conc_real(a): return RV(-frac(a))
    u = negof(a)
    return u if u is not None else -a
def rmul(a, b):
    if _isp(a) or _isp(b): return a * b if _isp(a) else b * a
    if is_conc_real(a) and is_conc_real(b): return RV(frac(a) * frac(b))
    if is_conc_real(a) and frac(a) == 1: return b
    if is_conc_real(b) and frac(b) == 1: return a
    if is_conc_real(a) and frac(a) == -1: return rneg(b)
    if is_conc_real(b) and frac(b) == -1: return rneg(a)
    na, nb = negof(a), negof(b)
    if na is not None and nb is not None: return na * nb
    if na is not None: return -(na * b)
    if nb is not None: return -(a * nb)
    return a * b
def radd(a, b):
    if _isp(a) or _isp(b): return a + b if _isp(a) else b + a
    if is_conc_real(a) and is_conc_real(b): return RV(frac(a) + frac(b))
    return a + b
def rsub(a, b):
    if _isp(a) or _isp(b): return a - b if _isp(a) else (-b) + a
    if is_conc_real(a) and is_conc_real(b): return RV(frac(a) - frac(b))
    return a - b
def rdiv(a, b):
    if _isp(a) or _isp(b):
        if _isp(b): raise Unsupported('division by polynomial')
        return a / b
    if is_conc_real(b):
        fb = frac(b)
        if fb == 0: raise Unsupported('division by literal zero')
        if is_conc_real(a): return RV(frac(a) / fb)
        return a * RV(1 / fb)
    na = negof(a)
    if na is not None: return -(na / b)
    return a / b

class Path:
    def __init__(s): s.cond = []; s.oblig = []; s.ret = None; s.mem = None; s.decisions = []

class Exec:
    """One symbolic run = one call of an entry function with given args.
    run_all() enumerates feasible paths."""
    def __init__(s, m, opaque=None, libm=None, path_cap=512, step_cap=400000, assume=None, timeout_ms=20000):
        s.m = m; s.opaque = opaque or {}; s.path_cap = path_cap; s.step_cap = step_cap
        s.base_assume = list(assume or [])
        s.timeout_ms = timeout_ms
        s.uf = {}; s.axioms = []; s.fresh = 0
        s.libm_extra = libm or {}; s.rationalize = True
        s.stats = {'paths': 0, 'steps': 0, 'feas_queries': 0}
        s.objsize = {}
        s.ginit_cache = None

    # ---------------- memory
    def init_globals(s):
        mem = {}
        for name, (ty, init, kind, ext) in s.m.globals.items():
            if init is None: continue
            cells = {}
            try: s.fill(cells, 0, ty, init)
            except Unsupported: continue
            mem[name] = cells
        return mem
    def fill(s, cells, off, ty, init):
        rt = resolve(ty, s.m)
        if init.kind == 'zero':
            if isinstance(rt, (IntT,)): cells[off] = 0
            elif isinstance(rt, FltT): cells[off] = RV(0)
            elif isinstance(rt, PtrT): cells[off] = Ptr(None, 0)
            elif isinstance(rt, ArrT):
                for i in range(rt.n): s.fill(cells, off + i * rt.el.size(s.m), rt.el, init)
            elif isinstance(rt, StructT):
                offs = rt.layout(s.m)[0]
                for o, e in zip(offs, rt.els): s.fill(cells, off + o, e, init)
            return
        if init.kind == 'agg':
            if isinstance(rt, ArrT):
                sz = rt.el.size(s.m)
                for i, e in enumerate(init.els): s.fill(cells, off + i * sz, rt.el, e)
            else:
                offs = rt.layout(s.m)[0]
                for o, t, e in zip(offs, rt.els, init.els): s.fill(cells, off + o, t, e)
            return
        if init.kind == 'cstr':
            for i, b in enumerate(unesc(init.s)): cells[off + i] = b
            return
        cells[off] = s.const(init)
    def new_obj(s, mem, name, cells=None):
        mem[name] = dict(cells or {}); return Ptr(name, 0)

    # ---------------- constants
    def const(s, v):
        k = v.kind
        if k == 'int': return v.val
        if k == 'flt':
            f = v.f
            if f != f or f in (float('inf'), float('-inf')): return ('nonfinite', f)
            return RV(simplest_rational(f) if s.rationalize else Fraction(f))
        if k == 'zero':
            rt = resolve(v.ty, s.m)
            if isinstance(rt, FltT): return RV(0)
            if isinstance(rt, PtrT): return Ptr(None, 0)
            if isinstance(rt, StructT): return [s.const(V('zero', e)) for e in rt.els]
            if isinstance(rt, ArrT): return [s.const(V('zero', rt.el)) for _ in range(rt.n)]
            return 0
        if k == 'global': return Ptr(v.name, 0)
        if k == 'null': return Ptr(None, 0)
        if k == 'cgep':
            base = s.const(v.ops[0]); off = 0; t = v.base_ty; first = True
            for o in v.ops[1:]:
                ov = s.const(o)
                if first: off += ov * t.size(s.m); first = False
                else:
                    rt = resolve(t, s.m)
                    if isinstance(rt, StructT): off += rt.layout(s.m)[0][ov]; t = rt.els[ov]
                    else: off += ov * rt.el.size(s.m); t = rt.el
            return Ptr(base.obj, base.off + off)
        if k == 'ccast': return s.const(v.v)
        if k == 'agg': return [s.const(e) for e in v.els]
        raise Unsupported('const ' + k)

    # ---------------- UFs / libm
    def UF(s, name, nargs):
        key = (name, nargs)
        if key not in s.uf:
            s.uf[key] = z3.Function('uf_' + name, *([z3.RealSort()] * (nargs + 1)))
        return s.uf[key]
    def freshreal(s, tag):
        s.fresh += 1; return z3.Real('%s!%d' % (tag, s.fresh))

    # ---------------- run
    def run_all(s, fname, mkargs):
        """mkargs(exec, mem) -> list of args (fresh per path; must be deterministic).
        Returns list of Path."""
        paths = []; stack = [[]]
        s.solver = z3.Solver(); s.solver.set('timeout', s.timeout_ms)
        while stack:
            prefix = stack.pop()
            if len(paths) >= s.path_cap: raise BoundExceeded('path cap %d' % s.path_cap)
            p = Path(); p.prefix = prefix; p.cond = list(s.base_assume); p.pending = []
            s.fresh = 0
            mem = s.init_globals(); p.mem = mem
            args = mkargs(s, mem)
            s.cur = p; s.nsteps = 0
            try:
                p.ret = s.call(fname, args, mem, 0)
            except _Infeasible:
                for alt in p.pending: stack.append(alt)
                continue
            for alt in p.pending: stack.append(alt)
            s.stats['paths'] += 1; s.stats['steps'] += s.nsteps
            paths.append(p)
        return paths

    def decide(s, c):
        """symbolic boolean c -> concrete bool, forking"""
        p = s.cur
        c = z3.simplify(c)
        if z3.is_true(c): return True
        if z3.is_false(c): return False
        k = len(p.decisions)
        if k < len(p.prefix):
            d = p.prefix[k]
            p.decisions.append(d); p.cond.append(c if d else z3.Not(c)); return d
        # new decision: check feasibility of both sides
        res = []
        for d in (True, False):
            s.solver.push(); s.solver.add(*p.cond); s.solver.add(c if d else z3.Not(c))
            s.stats['feas_queries'] += 1
            r = s.solver.check(); s.solver.pop()
            if r != z3.unsat: res.append(d)   # unknown counts as feasible (sound)
        if not res: raise _Infeasible()
        d = res[0]
        if len(res) == 2: p.pending.append(list(p.decisions) + [False])
        p.decisions.append(d); p.cond.append(c if d else z3.Not(c))
        p.prefix = list(p.decisions)
        return d

    def implied(s, c):
        """True / False if the path condition decides c, else None (two solver queries; cached per term)"""
        key = c.get_id(); cache = getattr(s.cur, 'impl_cache', None)
        if cache is None: cache = s.cur.impl_cache = {}
        if key in cache and cache[key][0] == len(s.cur.cond): return cache[key][1]
        r = None
        for val in (True, False):
            s.solver.push(); s.solver.add(*s.cur.cond); s.solver.add(z3.Not(c) if val else c)
            s.stats['feas_queries'] += 1
            u = s.solver.check(); s.solver.pop()
            if u == z3.unsat: r = val; break
        cache[key] = (len(s.cur.cond), r)
        return r

    def tobool(s, c):
        if isinstance(c, int): return bool(c & 1)
        if z3.is_bool(c): return s.decide(c)
        if z3.is_bv(c): return s.decide(c != 0)
        raise Unsupported('branch on ' + repr(c))

    def val(s, env, v):
        if v.kind == 'local':
            try: return env[v.name]
            except KeyError: raise Unsupported('undefined local ' + v.name)
        return s.const(v)

    def call(s, fname, args, mem, depth):
        if depth > 60: raise BoundExceeded('call depth')
        if fname in s.opaque:
            return s.opaque[fname](s, args, mem)
        f = s.m.funcs.get(fname)
        if f is None:
            return s.external(fname, args, mem)
        env = {}
        for (t, n), a in zip(f.args, args): env[n] = a
        cur = 'entry'; prev = None
        allocas = 0
        while True:
            ins = f.bmap[cur]
            newv = {}
            for I in ins:
                if I.op != 'phi': break
                for v, p in I.inc:
                    if pred_is(prev, p, f): newv[I.dest] = s.val(env, v); break
                else: raise Unsupported('phi without matching pred')
            env.update(newv)
            nxt = None
            for I in ins:
                op = I.op
                if op == 'phi': continue
                s.nsteps += 1
                if s.nsteps > s.step_cap: raise BoundExceeded('step cap %d' % s.step_cap)
                if op in ('fadd', 'fsub', 'fmul', 'fdiv'):
                    a = s.val(env, I.a); b = s.val(env, I.b)
                    if isinstance(a, tuple) or isinstance(b, tuple): raise Unsupported('arithmetic on non-finite literal')
                    env[I.dest] = {'fadd': radd, 'fsub': rsub, 'fmul': rmul, 'fdiv': rdiv}[op](a, b)
                elif op == 'fneg':
                    a = s.val(env, I.a)
                    if isinstance(a, tuple): env[I.dest] = ('nonfinite', -a[1])
                    elif _isp(a): env[I.dest] = -a
                    else: env[I.dest] = rneg(a)
                elif op in BINOPS:
                    env[I.dest] = s.intop(I, s.val(env, I.a), s.val(env, I.b))
                elif op in CASTS:
                    env[I.dest] = s.cast(I, s.val(env, I.a))
                elif op == 'freeze':
                    env[I.dest] = s.val(env, I.a)
                elif op == 'icmp':
                    env[I.dest] = s.icmp(I, s.val(env, I.a), s.val(env, I.b))
                elif op == 'fcmp':
                    env[I.dest] = s.fcmp(I.cc, s.val(env, I.a), s.val(env, I.b))
                elif op == 'getelementptr':
                    base = s.val(env, I.ops[0]); off = 0; t = I.bt; first = True
                    symidx = None
                    for o in I.ops[1:]:
                        ov = s.val(env, o)
                        n = resolve(o.ty, s.m).n
                        if is_sym(ov):
                            # bounded case split on a symbolic index (harness option gep_split = K: values 0..K-1, one path each)
                            K = getattr(s, 'gep_split', 0)
                            if not K: raise Unsupported('symbolic GEP index')
                            for kk in range(K):
                                if s.decide(ov == z3.BitVecVal(kk, ov.size())): ov = kk; break
                            else: raise Cut()
                        ov &= (1 << n) - 1
                        if ov >> (n - 1): ov -= 1 << n
                        if first: off += ov * t.size(s.m); first = False
                        else:
                            rt = resolve(t, s.m)
                            if isinstance(rt, StructT): off += rt.layout(s.m)[0][ov]; t = rt.els[ov]
                            else: off += ov * rt.el.size(s.m); t = rt.el
                    if not isinstance(base, Ptr): raise Unsupported('GEP on non-pointer')
                    env[I.dest] = Ptr(base.obj, base.off + off)
                elif op == 'load':
                    p = s.val(env, I.p)
                    env[I.dest] = s.load(mem, p, I.ty)
                elif op == 'store':
                    p = s.val(env, I.p); v = s.val(env, I.v)
                    s.store(mem, p, I.ty, v)
                elif op == 'alloca':
                    allocas += 1
                    nm = 'alloca!%s!%d!%d!%s' % (cname(fname)[-24:], depth, s.nsteps, cname(I.dest))
                    mem[nm] = {}
                    env[I.dest] = Ptr(nm, 0)
                elif op == 'select':
                    c = s.val(env, I.c); a = s.val(env, I.a); b = s.val(env, I.b)
                    if isinstance(c, int): env[I.dest] = a if c & 1 else b
                    else:
                        cb = c if z3.is_bool(c) else (c != 0)
                        cb = z3.simplify(cb)
                        if z3.is_true(cb): env[I.dest] = a
                        elif z3.is_false(cb): env[I.dest] = b
                        elif s.implied(cb) is not None: env[I.dest] = a if s.implied(cb) else b
                        elif is_sym(a) and is_sym(b) and a.sort() == b.sort(): env[I.dest] = z3.If(cb, a, b)
                        elif isinstance(a, int) and isinstance(b, int):
                            n = resolve(I.ty, s.m).n
                            if n == 1: env[I.dest] = z3.If(cb, z3.BoolVal(bool(a)), z3.BoolVal(bool(b)))
                            else: env[I.dest] = z3.If(cb, z3.BitVecVal(a, n), z3.BitVecVal(b, n))
                        else:
                            env[I.dest] = a if s.decide(cb) else b
                elif op == 'br':
                    if I.c is None: nxt = I.t
                    else: nxt = I.t if s.tobool(s.val(env, I.c)) else I.f
                elif op == 'switch':
                    v = s.val(env, I.v)
                    if is_sym(v): raise Unsupported('symbolic switch')
                    n = resolve(I.ty, s.m).n; v &= (1 << n) - 1
                    nxt = I.dflt
                    for cv, tg in I.cases:
                        if (cv.val & ((1 << n) - 1)) == v: nxt = tg; break
                elif op == 'ret':
                    return None if I.v is None else s.val(env, I.v)
                elif op in ('call', 'invoke'):
                    if I.indirect: raise Unsupported('indirect call')
                    nm = I.callee
                    if nm.startswith(('@llvm.lifetime', '@llvm.dbg', '@llvm.assume', '@llvm.experimental.noalias', '@llvm.invariant')):
                        r = None
                    else:
                        r = s.call(nm, [s.val(env, a) for a in I.args], mem, depth + 1)
                    if I.dest: env[I.dest] = r
                    if op == 'invoke': nxt = I.normal
                elif op == 'extractvalue':
                    a = s.val(env, I.a)
                    for i in I.idx: a = a[i]
                    env[I.dest] = a
                elif op == 'insertvalue':
                    a = s.val(env, I.a); v = s.val(env, I.v)
                    a = s.deepcopy(a); t = a
                    for i in I.idx[:-1]: t = t[i]
                    t[I.idx[-1]] = v; env[I.dest] = a
                elif op == 'unreachable':
                    raise Unsupported('reached unreachable in ' + fname)
                else:
                    raise Unsupported('op ' + op + ' :: ' + I.text)
                if nxt is not None: break
            if nxt is None: raise Unsupported('fell off block ' + cur)
            prev, cur = cur, nxt

    def deepcopy(s, a):
        return [s.deepcopy(x) for x in a] if isinstance(a, list) else a

    # ---------------- integer ops
    def intop(s, I, a, b):
        n = resolve(I.ty, s.m).n; op = I.op
        if is_sym(a) or is_sym(b):
            if n == 1:
                A = a if is_sym(a) else z3.BoolVal(bool(a)); B = b if is_sym(b) else z3.BoolVal(bool(b))
                if z3.is_bool(A) and z3.is_bool(B):
                    if op == 'and': return z3.And(A, B)
                    if op == 'or': return z3.Or(A, B)
                    if op == 'xor': return z3.Xor(A, B)
                raise Unsupported('i1 op ' + op)
            A = a if is_sym(a) else z3.BitVecVal(a, n); B = b if is_sym(b) else z3.BitVecVal(b, n)
            if z3.is_bool(A): A = z3.If(A, z3.BitVecVal(1, n), z3.BitVecVal(0, n))
            if z3.is_bool(B): B = z3.If(B, z3.BitVecVal(1, n), z3.BitVecVal(0, n))
            r = {'add': lambda: A + B, 'sub': lambda: A - B, 'mul': lambda: A * B, 'and': lambda: A & B, 'or': lambda: A | B,
                 'xor': lambda: A ^ B, 'shl': lambda: A << B, 'lshr': lambda: z3.LShR(A, B), 'ashr': lambda: A >> B,
                 'sdiv': lambda: A / B, 'udiv': lambda: z3.UDiv(A, B), 'srem': lambda: z3.SRem(A, B), 'urem': lambda: z3.URem(A, B)}[op]()
            return z3.simplify(r)
        if isinstance(a, Ptr) or isinstance(b, Ptr): raise Unsupported('pointer arithmetic via int')
        M = (1 << n) - 1; a &= M; b &= M
        sg = lambda x: x - (1 << n) if x >> (n - 1) else x
        def tdiv(x, y):
            if y == 0: raise Unsupported('integer division by zero')
            q = abs(x) // abs(y); return q if (x < 0) == (y < 0) else -q
        r = {'add': lambda: a + b, 'sub': lambda: a - b, 'mul': lambda: a * b, 'and': lambda: a & b, 'or': lambda: a | b,
             'xor': lambda: a ^ b, 'shl': lambda: a << b, 'lshr': lambda: a >> b, 'ashr': lambda: sg(a) >> b,
             'sdiv': lambda: tdiv(sg(a), sg(b)), 'udiv': lambda: tdiv(a, b), 'srem': lambda: sg(a) - sg(b) * tdiv(sg(a), sg(b)),
             'urem': lambda: a - b * tdiv(a, b)}[op]()
        return r & M
    def icmp(s, I, a, b):
        cc = I.cc; rt = resolve(I.ty, s.m)
        if isinstance(a, Ptr) or isinstance(b, Ptr):
            if not (isinstance(a, Ptr) and isinstance(b, Ptr)): raise Unsupported('ptr/int compare')
            if cc == 'eq': return int(a.obj == b.obj and a.off == b.off)
            if cc == 'ne': return int(not (a.obj == b.obj and a.off == b.off))
            if a.obj != b.obj: raise Unsupported('ordered compare of unrelated pointers')
            a, b = a.off, b.off; n = 64
        else:
            n = rt.n if isinstance(rt, IntT) else 64
        if is_sym(a) or is_sym(b):
            if n == 1:
                A = a if is_sym(a) else z3.BoolVal(bool(a)); B = b if is_sym(b) else z3.BoolVal(bool(b))
                if cc == 'eq': return A == B
                if cc == 'ne': return A != B
                raise Unsupported('i1 icmp ' + cc)
            A = a if is_sym(a) else z3.BitVecVal(a, n); B = b if is_sym(b) else z3.BitVecVal(b, n)
            return {'eq': lambda: A == B, 'ne': lambda: A != B, 'sgt': lambda: A > B, 'sge': lambda: A >= B, 'slt': lambda: A < B,
                    'sle': lambda: A <= B, 'ugt': lambda: z3.UGT(A, B), 'uge': lambda: z3.UGE(A, B), 'ult': lambda: z3.ULT(A, B),
                    'ule': lambda: z3.ULE(A, B)}[cc]()
        M = (1 << n) - 1; a &= M; b &= M
        sg = lambda x: x - (1 << n) if x >> (n - 1) else x
        if cc[0] == 's': a, b = sg(a), sg(b)
        return int({'eq': a == b, 'ne': a != b, 'gt': a > b, 'ge': a >= b, 'lt': a < b, 'le': a <= b}[cc if cc in ('eq', 'ne') else cc[1:]])
    def fcmp(s, cc, a, b):
        if isinstance(a, tuple) or isinstance(b, tuple):
            # comparison against +-inf / nan literal over the reals
            if isinstance(a, tuple) and isinstance(b, tuple): raise Unsupported('nonfinite vs nonfinite')
            swap = isinstance(a, tuple)
            lit = (a if swap else b)[1]
            if lit != lit:
                return int(cc in ('uno', 'une', 'ueq', 'ugt', 'uge', 'ult', 'ule'))
            # finite x vs +-inf
            big = lit > 0
            c2 = cc
            if swap: c2 = {'olt': 'ogt', 'ogt': 'olt', 'ole': 'oge', 'oge': 'ole', 'ult': 'ugt', 'ugt': 'ult', 'ule': 'uge', 'uge': 'ule'}.get(cc, cc)
            if c2 in ('oeq', 'ueq'): return 0
            if c2 in ('one', 'une'): return 1
            if c2 in ('olt', 'ole', 'ult', 'ule'): return int(big)
            if c2 in ('ogt', 'oge', 'ugt', 'uge'): return int(not big)
            if c2 == 'ord': return 1
            if c2 == 'uno': return 0
            raise Unsupported('fcmp nonfinite ' + cc)
        if cc == 'uno': return 0
        if cc == 'ord': return 1
        if cc in ('false',): return 0
        if cc in ('true',): return 1
        k = cc[1:]
        if is_conc_real(a) and is_conc_real(b):
            x, y = frac(a), frac(b)
            return int({'eq': x == y, 'ne': x != y, 'gt': x > y, 'ge': x >= y, 'lt': x < y, 'le': x <= y}[k])
        return {'eq': lambda: a == b, 'ne': lambda: a != b, 'gt': lambda: a > b, 'ge': lambda: a >= b, 'lt': lambda: a < b, 'le': lambda: a <= b}[k]()
    def cast(s, I, a):
        op = I.op; m = s.m
        if op in ('bitcast', 'addrspacecast'):
            r1, r2 = resolve(I.ty, m), resolve(I.to, m)
            if isinstance(r1, PtrT) and isinstance(r2, PtrT): return a
            if isinstance(r1, FltT) and isinstance(r2, IntT) and not isinstance(a, tuple):
                # only the sign bit of the pattern is meaningful in the real model (signbit idiom); a real zero counts as +0
                return z3.If(a < 0, z3.BitVecVal(1 << (r2.n - 1), r2.n), z3.BitVecVal(0, r2.n))
            raise Unsupported('bitcast %r -> %r' % (r1, r2))
        if op in ('fpext', 'fptrunc'): return a    # real semantics: no rounding
        if op in ('sitofp', 'uitofp'):
            n = resolve(I.ty, m).n
            if is_sym(a):
                if z3.is_bool(a): return z3.If(a, RV(1), RV(0))
                if op == 'sitofp': return z3.ToReal(z3.BV2Int(a, True))
                return z3.ToReal(z3.BV2Int(a, False))
            a &= (1 << n) - 1
            if op == 'sitofp' and n > 1 and a >> (n - 1): a -= 1 << n
            return RV(a)
        if op in ('fptosi', 'fptoui'):
            n = resolve(I.to, m).n
            if isinstance(a, tuple): raise Unsupported('fptosi of nonfinite literal')
            if is_conc_real(a):
                x = frac(a); t = int(x)  # truncation toward zero
                lo, hi = (-(1 << (n - 1)), (1 << (n - 1)) - 1) if op == 'fptosi' else (0, (1 << n) - 1)
                if not (lo <= t <= hi): raise Unsupported('constant float->int out of range')
                return t & ((1 << n) - 1)
            # symbolic: truncation; the in-range obligation is recorded on the path
            ti = z3.If(a >= 0, z3.ToInt(a), -z3.ToInt(-a))
            lo, hi = (-(1 << (n - 1)), (1 << (n - 1))) if op == 'fptosi' else (0, (1 << n))
            s.cur.oblig.append(('float->int in range (%s i%d)' % (op, n), z3.And(a > lo - 1, a < hi), list(s.cur.cond)))
            return z3.Int2BV(ti, n)
        n2 = resolve(I.to, m).n if isinstance(resolve(I.to, m), IntT) else 64
        if op == 'ptrtoint':
            return a
        if op == 'inttoptr':
            if isinstance(a, Ptr): return a
            raise Unsupported('inttoptr of integer')
        n1 = resolve(I.ty, m).n
        if is_sym(a):
            if z3.is_bool(a):
                if op == 'zext': return z3.If(a, z3.BitVecVal(1, n2), z3.BitVecVal(0, n2))
                if op == 'sext': return z3.If(a, z3.BitVecVal(-1, n2), z3.BitVecVal(0, n2))
            if op == 'trunc':
                r = z3.Extract(n2 - 1, 0, a)
                return (r == 1) if n2 == 1 else r
            if op == 'zext': return z3.ZeroExt(n2 - n1, a)
            if op == 'sext': return z3.SignExt(n2 - n1, a)
        if isinstance(a, Ptr): return a
        a &= (1 << n1) - 1
        if op == 'trunc': return a & ((1 << n2) - 1)
        if op == 'zext': return a
        if op == 'sext':
            if a >> (n1 - 1): a -= 1 << n1
            return a & ((1 << n2) - 1)
        raise Unsupported('cast ' + op)

    # ---------------- memory access
    def load(s, mem, p, ty):
        if not isinstance(p, Ptr) or p.obj is None: raise Unsupported('load through ' + repr(p))
        obj = mem.get(p.obj)
        if obj is None: raise Unsupported('load from unknown object ' + str(p.obj))
        rt = resolve(ty, s.m)
        if isinstance(rt, (StructT, ArrT)): raise Unsupported('aggregate load')
        if p.off in obj:
            v = obj[p.off]
            if isinstance(rt, IntT) and rt.n > 8 and isinstance(v, int) and (p.off + 1) in obj and isinstance(obj[p.off + 1], int) and p.obj.startswith('@.str'):
                pass
            return v
        if isinstance(rt, IntT) and rt.n == 8:
            raise Unsupported('uninitialised byte load %r' % p)
        raise Unsupported('load of uninitialised cell %r (%r)' % (p, rt))
    def store(s, mem, p, ty, v):
        if not isinstance(p, Ptr) or p.obj is None: raise Unsupported('store through ' + repr(p))
        if p.obj not in mem: mem[p.obj] = {}
        mem[p.obj][p.off] = v

    # ---------------- externals
    def external(s, name, args, mem):
        n = name.lstrip('@')
        if n in s.libm_extra: return s.libm_extra[n](s, args, mem)
        h = LIBM.get(n)
        if h is None: raise Unsupported('external ' + name)
        return h(s, args, mem)

class _Infeasible(Exception): pass
class Cut(_Infeasible):
    """raised by a harness stub to end a path deliberately (bounded exploration); alternatives still explored"""

# ---------------------------------------------------------------- libm over the reals
def _sqrt(s, a, mem):
    x = a[0]
    if is_conc_real(x):
        f = frac(x)
        if f >= 0:
            import math
            num, den = f.numerator, f.denominator
            rn, rd = math.isqrt(num), math.isqrt(den)
            if rn * rn == num and rd * rd == den: return RV(Fraction(rn, rd))
    r = s.freshreal('sqrt')
    s.cur.cond.append(z3.And(r >= 0, r * r == x))
    s.cur.oblig.append(('sqrt argument >= 0', x >= 0, list(s.cur.cond[:-1])))
    return r
def _cbrt(s, a, mem):
    x = a[0]; r = s.freshreal('cbrt'); s.cur.cond.append(r * r * r == x); return r
def _fabs(s, a, mem):
    x = a[0]
    if is_conc_real(x): return RV(abs(frac(x)))
    return z3.If(x >= 0, x, -x)
def _hypot(s, a, mem):
    x, y = a[0], a[1]; r = s.freshreal('hypot'); s.cur.cond.append(z3.And(r >= 0, r * r == x * x + y * y)); return r
def _copysign(s, a, mem):
    x, y = a
    if isinstance(y, tuple): raise Unsupported('copysign nonfinite')
    ax = _fabs(s, [x], mem)
    if is_conc_real(y) and frac(y) != 0: return ax if frac(y) > 0 else -ax
    # sign of zero is unknown over the reals: fork
    neg = s.decide(y < 0) if not is_conc_real(y) else False
    if not neg and not is_conc_real(y):
        pass
    if neg: return -ax
    if is_conc_real(y) or not s.decide(y == 0): return ax
    # y == 0: either sign
    return ax if s.decide(z3.Bool('signzero!%d' % len(s.cur.decisions))) else -ax
def _fmax(s, a, mem): return z3.If(a[0] >= a[1], a[0], a[1])
def _fmin(s, a, mem): return z3.If(a[0] <= a[1], a[0], a[1])
def _floor(s, a, mem):
    x = a[0]
    if is_conc_real(x):
        import math
        return RV(math.floor(frac(x)))
    return z3.ToReal(z3.ToInt(x))
def _ceil(s, a, mem): return -_floor(s, [-a[0]], mem)
def _trunc(s, a, mem):
    x = a[0]; return z3.If(x >= 0, z3.ToReal(z3.ToInt(x)), -z3.ToReal(z3.ToInt(-x)))
def _uf(name, n):
    def h(s, a, mem):
        for x in a:
            if isinstance(x, tuple): raise Unsupported(name + ' of nonfinite literal')
        return s.UF(name, n)(*a[:n])
    return h
def _remainder(s, a, mem):
    x, y = a
    k = z3.Int('rem_n!%d' % (s.fresh + 1)); s.fresh += 1
    r = x - y * z3.ToReal(k)
    s.cur.cond.append(z3.And(2 * r <= y, 2 * r >= -y) if True else None)
    return r
def _fma(s, a, mem): return a[0] * a[1] + a[2]
def _signbit(s, a, mem):
    x = a[0]
    if is_conc_real(x) and frac(x) != 0: return int(frac(x) < 0)
    if s.decide(x < 0): return 1
    if is_conc_real(x) or not s.decide(x == 0): return 0
    return 1 if s.decide(z3.Bool('signzero!%d' % len(s.cur.decisions))) else 0
def _isnan(s, a, mem): return 0
def _memcpy(s, a, mem):
    d, src, n = a[0], a[1], a[2]
    if is_sym(n): raise Unsupported('symbolic memcpy length')
    so = mem.get(src.obj)
    if so is None: raise Unsupported('memcpy from unknown object')
    do = mem.setdefault(d.obj, {})
    for k in [k for k in do if d.off <= k < d.off + n]: del do[k]
    for k, v in list(so.items()):
        if src.off <= k < src.off + n: do[d.off + k - src.off] = v
    return d
def _memset(s, a, mem):
    d, c, n = a[0], a[1], a[2]
    if is_sym(n) or is_sym(c): raise Unsupported('symbolic memset')
    do = mem.setdefault(d.obj, {})
    if c & 255: raise Unsupported('memset nonzero')
    do['!zero'] = do.get('!zero', []) + [(d.off, d.off + n)]
    for k in [k for k in do if k != '!zero' and d.off <= k < d.off + n]: del do[k]
    return d

def _guard_acquire(s, a, mem):
    g = a[0]; cells = mem.setdefault(g.obj, {})
    v = cells.get(g.off, 0)
    return 0 if (isinstance(v, int) and v & 0xff) else 1
def _guard_release(s, a, mem):
    g = a[0]; mem.setdefault(g.obj, {})[g.off] = 1; return None
LIBM = {
    '__cxa_guard_acquire': _guard_acquire, '__cxa_guard_release': _guard_release, '__cxa_guard_abort': lambda s, a, mem: None,
    'sqrt': _sqrt, 'llvm.sqrt.f64': _sqrt, 'cbrt': _cbrt, 'fabs': _fabs, 'llvm.fabs.f64': _fabs, 'hypot': _hypot,
    'copysign': _copysign, 'llvm.copysign.f64': _copysign, 'fmax': _fmax, 'fmin': _fmin, 'llvm.maxnum.f64': _fmax, 'llvm.minnum.f64': _fmin,
    'floor': _floor, 'llvm.floor.f64': _floor, 'ceil': _ceil, 'llvm.ceil.f64': _ceil, 'trunc': _trunc, 'llvm.trunc.f64': _trunc,
    'remainder': _remainder, 'fma': _fma, 'llvm.fma.f64': _fma, 'llvm.fmuladd.f64': _fma,
    'llvm.memcpy.p0i8.p0i8.i64': _memcpy, 'llvm.memmove.p0i8.p0i8.i64': _memcpy, 'llvm.memset.p0i8.i64': _memset,
}
for _n in ('sin', 'cos', 'tan', 'atan', 'asin', 'acos', 'exp', 'log', 'sinh', 'cosh', 'tanh', 'asinh', 'atanh', 'acosh', 'log1p', 'expm1', 'exp2', 'log2'):
    LIBM[_n] = _uf(_n, 1); LIBM['llvm.%s.f64' % _n] = _uf(_n, 1)
for _n in ('atan2', 'pow', 'fmod'):
    LIBM[_n] = _uf(_n, 2); LIBM['llvm.%s.f64' % _n] = _uf(_n, 2)

# ---------------------------------------------------------------- solving helpers
def prove(claim, assume=(), timeout_ms=60000, want_model=True):
    """decide  assume => claim.  returns ('unsat'|'sat'|'unknown', model_or_None, seconds)"""
    sv = z3.Solver(); sv.set('timeout', timeout_ms)
    sv.add(*assume); sv.add(z3.Not(claim))
    t = time.time(); r = sv.check(); dt = time.time() - t
    if r == z3.unsat: return 'unsat', None, dt
    if r == z3.sat: return 'sat', sv.model(), dt
    return 'unknown', None, dt

def nontrivial(claim, timeout_ms=5000):
    """is the negated claim satisfiable on its own as a formula over fresh symbols? (used for the
    distinct_nontrivial count: the obligation is not a tautology of the spec side alone)"""
    sv = z3.Solver(); sv.set('timeout', timeout_ms); sv.add(z3.Not(claim))
    return sv.check() != z3.unsat

def poly_eval(coeffs, x):
    """Horner form of sum coeffs[k] x^k  (coeffs: Fractions / z3 terms)"""
    r = RV(0)
    for c in reversed(coeffs):
        r = r * x + (RV(c) if isinstance(c, (Fraction, int)) else c)
    return r

def model_value(model, x):
    v = model.eval(x, model_completion=True)
    if z3.is_rational_value(v): return Fraction(v.numerator_as_long(), v.denominator_as_long())
    if z3.is_algebraic_value(v):
        a = v.approx(40); return Fraction(a.numerator_as_long(), a.denominator_as_long())
    return None
