#!/usr/bin/env python3
"""Engine E1 back half: generated C + harness -> cbmc; result parsing, witness handling, trace extraction."""
import os, re, json, subprocess, time, hashlib, struct
from . import build, irparse, cgen

VERIF = build.VERIF
STUBS = os.path.join(VERIF, 'stubs')

def defined_functions(*texts):
    names = set()
    for t in texts:
        for mo in re.finditer(r'^(?:static\s+)?(?:inline\s+)?[A-Za-z_][\w\s\*]*?\b(F_\w+)\s*\([^;{]*\)\s*\{', t, re.M):
            names.add(mo.group(1))
    return names

def generate(m, roots, stop=(), cut_throw=True, instrument_stores=False, harness_text='', extra_globals=(), stubs=('cxx.c',), nsw_checks=False, export_types=()):
    """returns (C text, info).  Externals that no stub / harness defines get a body that fails an assertion when reached,
    so an unmodelled call can never make a proof pass silently."""
    g = cgen.Cgen(m, cut_throw=cut_throw, instrument_stores=instrument_stores, nsw_checks=nsw_checks)
    g.export_types = list(export_types)
    text = g.generate(roots, stop=stop, extra_globals=extra_globals)
    have = defined_functions(harness_text, *[open(os.path.join(STUBS, s)).read() for s in stubs])
    guards = []
    missing = []
    for name in g.externals + [n for n in stop if n in m.funcs and n not in g.externals]:
        cn = 'F_' + irparse.cname(name)
        if cn in have: continue
        if name in g.used_ext: rty, atys = g.used_ext[name]
        else:
            f = m.funcs[name]; rty, atys = f.ret, [t for t, _ in f.args]
        if name in m.funcs and name not in g.used_ext: continue
        missing.append(name)
        rt = irparse.resolve(rty, m); ct = g.ctype(rty)
        ret = '' if isinstance(rt, irparse.VoidT) else (' return (%s){0};' % ct if isinstance(rt, (irparse.StructT, irparse.ArrT)) else ' return (%s)0;' % ct)
        args = ', '.join('...' if t == '...' else '%s a%d' % (g.ctype(t), i) for i, t in enumerate(atys)) or 'void'
        guards.append('%s %s(%s) { VF_ASSERT(0, "unmodelled external %s reached");%s }' % (ct, cn, args, name.lstrip('@')[:80], ret))
    # prototypes for stop-functions defined in the module (harness supplies bodies)
    protos = []
    for n in stop:
        if n in m.funcs:
            protos.append(g.proto(m.funcs[n]) + ';')
    text = text + '\n'.join(protos) + '\n/* guards for unmodelled externals */\n' + '\n'.join(guards) + '\n'
    info = {'functions': g.emitted, 'externals': g.externals, 'unmodelled': missing, 'fop_sites': len(g.fop_sites)}
    return text, info

def run_cbmc(cfile, incdirs, defines=(), unwind=None, unwindset=None, function='harness', timeout=300, extra=(), mem_gb=8, trace=True, solver=None):
    cmd = ['cbmc', cfile, '--function', function, '--json-ui', '--unwinding-assertions', '--pointer-overflow-check', '--undefined-shift-check',
           '--signed-overflow-check', '--drop-unused-functions', '--no-malloc-may-fail', '--no-standard-checks', '--bounds-check', '--pointer-check',
           '--div-by-zero-check', '--malloc-fail-null'] if False else \
          ['cbmc', cfile, '--function', function, '--json-ui', '--unwinding-assertions', '--pointer-overflow-check', '--undefined-shift-check',
           '--signed-overflow-check', '--drop-unused-functions', '--no-malloc-may-fail', '--object-bits', '11']
    if trace: cmd.append('--trace')
    for d in incdirs: cmd += ['-I', d]
    for d in defines: cmd += ['-D', d]
    if unwind is not None: cmd += ['--unwind', str(unwind)]
    if unwindset: cmd += ['--unwindset', ','.join('%s:%d' % kv for kv in unwindset.items())]
    if solver == 'kissat': cmd += ['--external-sat-solver', 'kissat']
    elif solver == 'cadical': cmd += ['--sat-solver', 'cadical']
    elif solver == 'z3': cmd += ['--z3']
    cmd += list(extra)
    t = time.time()
    # cbmc must never run into an address-space limit: it does not fail cleanly there but can report spurious FAILUREs.  The limit inherited
    # from the driver is lifted for the cbmc process and replaced by a watchdog on its resident size (kill -> inconclusive).
    import resource, tempfile, threading
    lim = resource.getrlimit(resource.RLIMIT_AS)[0]
    cap_kb = (lim // 1024) if lim not in (resource.RLIM_INFINITY, -1) else None
    def _unlimit():
        try: resource.setrlimit(resource.RLIMIT_AS, (resource.RLIM_INFINITY, resource.RLIM_INFINITY))
        except Exception: pass
    fo = tempfile.TemporaryFile(mode='w+'); fe = tempfile.TemporaryFile(mode='w+')
    p = subprocess.Popen(cmd, stdout=fo, stderr=fe, text=True, preexec_fn=_unlimit)
    killed = None
    while True:
        try:
            p.wait(timeout=1.0); break
        except subprocess.TimeoutExpired: pass
        if time.time() - t > timeout: killed = 'timeout'
        elif cap_kb:
            try:
                for l in open('/proc/%d/status' % p.pid):
                    if l.startswith('VmRSS:') and int(l.split()[1]) > cap_kb: killed = 'memory'
            except Exception: pass
        if killed:
            p.kill(); p.wait(); break
    if killed:
        return {'status': 'timeout', 'wall_s': time.time() - t, 'cmd': ' '.join(cmd), 'why': killed}
    class _R: pass
    r = _R(); fo.seek(0); fe.seek(0); r.stdout = fo.read(); r.stderr = fe.read(); r.returncode = p.returncode
    dt = time.time() - t
    try:
        js = json.loads(r.stdout)
    except Exception:
        return {'status': 'error', 'wall_s': dt, 'detail': (r.stdout[-1500:] + r.stderr[-1500:]), 'cmd': ' '.join(cmd)}
    res = {'status': 'done', 'wall_s': dt, 'props': [], 'cmd': ' '.join(cmd), 'messages': []}
    for item in js:
        if 'result' in item:
            for p in item['result']:
                res['props'].append(p)
        if item.get('messageType') == 'ERROR': res['messages'].append(item.get('messageText', '')[:500])
        if 'cProverStatus' in item: res['cprover'] = item['cProverStatus']
        if item.get('messageType') == 'STATUS-MESSAGE':
            mt = item.get('messageText', '')
            mo = re.search(r'(\d+) variables, (\d+) clauses', mt)
            if mo: res['sat_size'] = [int(mo.group(1)), int(mo.group(2))]
            mo = re.search(r'Runtime Solver: ([\d.e+-]+)s', mt)
            if mo: res['solver_s'] = res.get('solver_s', 0) + float(mo.group(1))
            mo = re.search(r'Runtime decision procedure: ([\d.e+-]+)s', mt)
            if mo: res['solver_s'] = float(mo.group(1))
    if not res['props'] and res['messages']: res['status'] = 'error'; res['detail'] = '; '.join(res['messages'])
    if not res['props'] and res['status'] == 'done': res['status'] = 'error'; res['detail'] = 'no properties in cbmc output: ' + r.stdout[-800:]
    return res

def trace_inputs(prop, prefix='in_'):
    """last value assigned to each harness input variable (globals named in_*) along the counterexample trace"""
    vals = {}
    for st in prop.get('trace', []):
        if st.get('stepType') != 'assignment': continue
        lhs = st.get('lhs', '')
        if not lhs.startswith(prefix): continue
        v = st.get('value', {})
        mo = re.match(r'(\w+)\[(\d+)l?\]$', lhs)
        if mo:    # element assignment: merge into the array value
            arr = vals.get(mo.group(1))
            if not isinstance(arr, list): arr = []
            i = int(mo.group(2))
            while len(arr) <= i: arr.append(0)
            arr[i] = decode_value(v); vals[mo.group(1)] = arr
            continue
        vals[lhs] = decode_value(v)
    return vals

def decode_value(v):
    if 'binary' in v and v.get('name') == 'float':
        b = v['binary']; w = len(b)
        if w == 64: return {'double_hex': float.hex(struct.unpack('>d', int(b, 2).to_bytes(8, 'big'))[0]), 'bits': '0x%016x' % int(b, 2), 'repr': v.get('data')}
        if w == 32: return {'float': struct.unpack('>f', int(b, 2).to_bytes(4, 'big'))[0], 'repr': v.get('data')}
    if v.get('name') == 'integer':
        try: return int(v.get('data').rstrip('uUlL'))
        except Exception:
            d = v.get('data')
            if isinstance(d, str) and len(d) >= 3 and d[0] == "'":   # char literal
                return int(v['binary'], 2) if 'binary' in v else d
            return d
    if v.get('name') == 'boolean': return 1 if v.get('data') in ('TRUE', 'true', True) else 0
    if v.get('name') == 'array' or 'elements' in v:
        return [decode_value(e.get('value', e)) for e in v.get('elements', [])]
    if v.get('name') == 'struct' or 'members' in v:
        return {mm.get('name'): decode_value(mm.get('value', {})) for mm in v.get('members', [])}
    if v.get('name') == 'pointer': return v.get('data')
    return v.get('data')

def dbl(x):
    """decoded double input -> python float"""
    if isinstance(x, dict) and 'double_hex' in x: return float.fromhex(x['double_hex'])
    if isinstance(x, dict) and 'float' in x: return x['float']
    return float(x)

def classify(res):
    """-> (verdict, detail, failing_prop).  Properties whose description starts with 'WITNESS' must FAIL (reachability /
    liveness of the throw path); every other property (harness assertions, pointer/bounds/overflow checks, unwinding
    assertions, unmodelled-external guards) must succeed."""
    if res['status'] == 'timeout': return 'inconclusive', ('cbmc exceeded the memory budget after %.0fs' if res.get('why') == 'memory' else 'cbmc timeout after %.0fs') % res['wall_s'], None
    if res['status'] == 'error': return 'broken', 'cbmc error: ' + str(res.get('detail'))[:1500], None
    bad = []; wit_ok = []; wit_bad = []; unwind_bad = []
    for p in res['props']:
        d = p.get('description', ''); st = p.get('status')
        if d.startswith('WITNESS'):
            (wit_ok if st == 'FAILURE' else wit_bad).append(d)
        elif st != 'SUCCESS':
            if 'unwinding assertion' in d: unwind_bad.append(p)
            elif 'unmodelled external' in d or 'harness bound' in d or 'not modelled' in d: unwind_bad.append(p)
            else: bad.append(p)
    res['witness'] = {'reachable': wit_ok, 'unreachable': wit_bad}
    conv_bad = [p for p in bad if 'conversion in range' in p.get('description', '')]
    if unwind_bad and conv_bad:
        # an out-of-range float->int conversion is undefined behaviour at that point; exceeded harness bounds further on are its consequences
        return 'violated', '; '.join('%s [%s]' % (p.get('description'), p.get('property')) for p in conv_bad[:4]), conv_bad[0]
    if unwind_bad:
        return 'inconclusive', 'bound exceeded / unmodelled: ' + '; '.join(sorted({p.get('description', '') + (' [%s]' % p.get('property') if 'unwinding' in p.get('description', '') else '') for p in unwind_bad}))[:800], None
    if not wit_ok and not bad:
        return 'broken', 'vacuous harness: no witness reachable: ' + '; '.join(wit_bad), None
    if bad:
        # prefer harness assertions over generic checks when choosing the reported property
        bad.sort(key=lambda p: (0 if 'assertion' in p.get('property', '') else 1))
        return 'violated', '; '.join('%s [%s]' % (p.get('description'), p.get('property')) for p in bad[:4]), bad[0]
    return 'proved', None, None

def cbmc_check(ctx, m, tag, roots, harness_file, stop=(), defines=(), unwind=None, unwindset=None, timeout=300, cut_throw=True,
               instrument_stores=False, solver='cadical', extra=(), function='harness', extra_globals=(), keep=False, nsw_checks=False, export_types=()):
    """full E1 pipeline for one harness function.  returns result dict (verdict etc.) with cex inputs if violated"""
    sc = build.scratch()
    htext = open(harness_file).read()
    text, info = generate(m, roots, stop=stop, cut_throw=cut_throw, instrument_stores=instrument_stores, harness_text=htext, extra_globals=extra_globals, nsw_checks=nsw_checks, export_types=export_types)
    d = os.path.join(sc, 'e1-' + hashlib.md5((tag + harness_file + function + repr(defines)).encode()).hexdigest()[:10]); os.makedirs(d, exist_ok=True)
    open(os.path.join(d, 'gen.c'), 'w').write(text)
    res = run_cbmc(harness_file, [d, STUBS, os.path.dirname(harness_file)], defines=defines, unwind=unwind, unwindset=unwindset, function=function,
                   timeout=timeout, extra=extra, solver=solver)
    verdict, detail, badprop = classify(res)
    dm = irparse.demangle(info['functions'])
    out = {'verdict': verdict, 'detail': detail, 'queries': len(res.get('props', [])), 'solver_s': round(res.get('solver_s', 0) or 0, 3),
           'functions': [dm.get(n, n) for n in info['functions']], 'witness': res.get('witness'),
           'bounds': {'unwind': unwind, 'unwindset': unwindset, 'sat_size': res.get('sat_size')},
           'nontrivial': 1 if (res.get('witness') or {}).get('reachable') else 0,
           'sample': {'harness': os.path.relpath(harness_file, VERIF), 'function': function, 'defines': list(defines), 'properties_checked': len(res.get('props', [])),
                      'example_properties': [p.get('description') for p in res.get('props', [])[:6]], 'unmodelled_externals_guarded': info['unmodelled'][:12]},
           'assumptions': []}
    if verdict == 'violated':
        out['cex'] = {'inputs': trace_inputs(badprop), 'failed_property': badprop.get('description'), 'property_id': badprop.get('property'),
                      'harness': os.path.relpath(harness_file, VERIF), 'function': function, 'defines': list(defines)}
    if keep: out['dir'] = d
    return out


# ---------------------------------------------------------------- replay against the real code
def _cval(v):
    """decoded trace value -> C initialiser expression"""
    if isinstance(v, dict):
        if 'bits' in v: return 'vf_bits2d(%sULL)' % v['bits']
        if 'float' in v: return '%r' % v['float']
    if isinstance(v, bool): return '1' if v else '0'
    if isinstance(v, int): return '%dLL' % v if abs(v) < (1 << 63) else '%dULL' % v
    return None

def replay_native(m, harness_file, function, inputs, defines=(), timeout=120, sanitize=True, wrapper_src=None):
    """Re-run the harness function on the REAL code (g++ build of the current tree, UBSan/ASan/float-cast-overflow on) with the
    counterexample's inputs preset: the generated code is replaced by shims that call the real mangled symbols with the same
    ABI-level arguments and map C++ exceptions to vf_exc; the harness assertions are evaluated concretely.
    returns (reproduced: bool|None, message)"""
    sc = build.scratch()
    htext = open(harness_file).read()
    stubtexts = [open(os.path.join(STUBS, 'cxx.c')).read()]
    # the harness text as the replay build will see it (preprocessor conditionals resolved)
    dpre = os.path.join(sc, 'replay-pp-' + hashlib.md5((harness_file + repr(defines)).encode()).hexdigest()[:8]); os.makedirs(dpre, exist_ok=True)
    open(os.path.join(dpre, 'gen.c'), 'w').write('\n')
    rpp = subprocess.run(['gcc', '-E', '-P', '-DVF_REPLAY=1', harness_file, '-I', dpre, '-I', STUBS, '-I', os.path.dirname(harness_file)] + ['-D' + x for x in defines], capture_output=True, text=True)
    hpp = rpp.stdout if rpp.returncode == 0 else htext
    have = defined_functions(hpp)
    used = set(re.findall(r'\b(F_\w+)\s*\(', hpp))
    g = cgen.Cgen(m)
    shims = []; protos = []
    allnames = {('F_' + irparse.cname(n)): n for n in list(m.funcs) + list(m.decls)}
    for cn in sorted(used):
        if cn in have or cn not in allnames: continue
        n = allnames[cn]
        if n not in m.funcs: continue
        f = m.funcs[n]
        rt = irparse.resolve(f.ret, m)
        if isinstance(rt, (irparse.StructT, irparse.ArrT)): return None, 'replay unsupported: aggregate return of ' + n
        ret = g.ctype(f.ret); sym = n.lstrip('@')
        args = [(g.ctype(t), 'a%d' % i) for i, (t, _) in enumerate(f.args)]
        decl = ', '.join('%s %s' % a for a in args) or 'void'
        protos.append('%s %s(%s);' % (ret, cn, decl))
        call = '%s(%s)' % (sym, ', '.join(a[1] for a in args))
        body = ('%s; return;' % call) if ret == 'void' else ('return %s;' % call)
        shims.append('extern "C" %s %s(%s);\nextern "C" %s %s(%s) {\n  try { %s }\n  VF_CATCH\n  %s\n}\n' % (
            ret, sym, decl, ret, cn, decl, body, 'return;' if ret == 'void' else 'return (%s)0;' % ret))
    d = os.path.join(sc, 'replay-' + hashlib.md5((harness_file + function + repr(sorted(inputs.items(), key=str)) + repr(defines)).encode()).hexdigest()[:10])
    os.makedirs(d, exist_ok=True)
    open(os.path.join(d, 'gen.c'), 'w').write('/* replay: the generated code is replaced by shims onto the real symbols */\n' + '\n'.join(g.agg_defs) + '\n' + '\n'.join(protos) + '\n')
    loads = []
    for k, v in sorted(inputs.items()):
        if isinstance(v, list):
            for i, e in enumerate(v):
                c = _cval(e)
                if c is not None: loads.append('%s[%d] = %s;' % (k, i, c))
        elif '[' in k: continue
        else:
            c = _cval(v)
            if c is not None: loads.append('%s = %s;' % (k, c))
    # only assign variables that exist in the harness file
    loads = [l for l in loads if re.search(r'\b%s\b' % re.escape(l.split('[')[0].split(' =')[0]), htext)]
    main = '#define VF_REPLAY 1\n#include "%s"\nstatic void vf_replay_load(void) {\n  %s\n}\nint main(void) { vf_replay_load(); %s(); printf("REPLAY-DONE failures=%%d exc=%%d\\n", vf_replay_failures, vf_exc); return vf_replay_failures ? 1 : 0; }\n' % (
        harness_file, '\n  '.join(loads), function)
    open(os.path.join(d, 'main.c'), 'w').write(main)
    shim = ('#include <GeographicLib/Constants.hpp>\n#include <new>\n#include <stdexcept>\n#include <cstdint>\nextern "C" int vf_exc;\n'
            '#define VF_CATCH catch (const GeographicLib::GeographicErr&) { vf_exc = 1; } catch (const std::bad_alloc&) { vf_exc = 3; } '
            'catch (const std::out_of_range&) { vf_exc = 4; } catch (const std::length_error&) { vf_exc = 5; } catch (...) { vf_exc = 2; }\n' + '\n'.join(shims))
    open(os.path.join(d, 'shim.cpp'), 'w').write(shim)
    lib = build.full_lib_so(sanitize=sanitize)
    san = build.SAN if sanitize else []
    inc = build.incflags()
    cc = ['gcc', '-std=gnu11', '-O0', '-g', '-w', '-ffunction-sections', '-fdata-sections', '-c', os.path.join(d, 'main.c'), '-o', os.path.join(d, 'main.o'), '-I', d, '-I', STUBS, '-I', os.path.dirname(harness_file)] + ['-D' + x for x in defines]
    r = subprocess.run(cc, capture_output=True, text=True)
    if r.returncode: return None, 'replay harness did not compile: ' + r.stderr[-1500:]
    srcs = [os.path.join(d, 'shim.cpp')]
    extra_objs = []
    if wrapper_src:   # internal-linkage / inline functions only exist in the wrapper unit: build it too
        wo = os.path.join(d, 'wrapper.o')
        r = subprocess.run(['g++', '-std=c++14', '-O1', '-g', '-w', '-fPIC', '-fno-access-control', '-DNDEBUG', '-c', wrapper_src, '-o', wo] + san + inc, capture_output=True, text=True)
        if r.returncode: return None, 'wrapper did not compile: ' + r.stderr[-1500:]
        extra_objs.append(wo)
    exe = os.path.join(d, 'replay')
    r = subprocess.run(['g++', '-std=c++14', '-O0', '-g', '-w'] + san + inc + srcs + [os.path.join(d, 'main.o')] + extra_objs + [lib, '-Wl,-rpath,' + os.path.dirname(lib),
                        '-Wl,--gc-sections', '-o', exe], capture_output=True, text=True)
    if r.returncode: return None, 'replay program did not link: ' + r.stderr[-1500:]
    env = dict(os.environ, ASAN_OPTIONS='detect_leaks=0:alloc_dealloc_mismatch=0:abort_on_error=0:detect_odr_violation=0', UBSAN_OPTIONS='print_stacktrace=0')
    try:
        p = subprocess.run([exe], capture_output=True, text=True, timeout=timeout, env=env)
    except subprocess.TimeoutExpired:
        return None, 'replay timed out'
    viol = [l[len('VIOLATED: '):] for l in p.stdout.split('\n') if l.startswith('VIOLATED: ')]
    sanmsg = [l.strip() for l in p.stderr.split('\n') if 'runtime error' in l or 'ERROR: AddressSanitizer' in l]
    invals = ', '.join('%s=%s' % (k, (v.get('repr') if isinstance(v, dict) else v)) for k, v in sorted(inputs.items()) if '[' not in k and re.search(r'\b%s\b' % re.escape(k), htext.split('void ' + function)[1].split('\nvoid ')[0] if ('void ' + function) in htext else htext))
    if sanmsg: return True, 'real code, %s(%s): %s' % (function, invals[:500], sanmsg[0][:300])
    if 'ASSUME-VIOLATED' in p.stdout: return False, 'counterexample leaves the harness assumptions on the real code (a contract stub differs from the real callee): ' + p.stdout[-300:]
    if viol: return True, 'real code, %s(%s): %s' % (function, invals[:500], '; '.join(viol)[:500])
    if 'REPLAY-DONE' not in p.stdout: return None, 'replay crashed: rc=%d %s' % (p.returncode, (p.stderr or p.stdout)[-500:])
    return False, 'all harness assertions hold on the real code for %s(%s)' % (function, invals[:500])


def _dblval(v):
    return {'bits': '0x%016x' % struct.unpack('>Q', struct.pack('>d', v))[0], 'double_hex': float.hex(v), 'repr': repr(v)}

def replay(rp, wrapper, use_wrapper_obj=False):
    """generic replay entry for harness modules.  Where a callee was replaced by a contract stub whose result the harness records
    (in_lonn = AngNormalize(in_lon)), the solver's argument is only one of the values the contract allows; if it does not
    reproduce, the canonical representatives of the recorded result (lonn, lonn +- 360, lonn + 720) are tried as well."""
    cex = rp['cex']
    m = irparse.parse_module(build.compile_ir(build.wrapper(wrapper)))
    inputs = dict(cex['inputs'])
    tries = [inputs]
    if 'in_lon' in inputs and 'in_lonn' in inputs:
        try:
            ln = dbl(inputs['in_lonn'])
            if ln == ln and abs(ln) <= 180:
                for d in (0.0, 360.0, -360.0, 720.0):
                    t = dict(inputs); t['in_lon'] = _dblval(ln + d); tries.append(t)
        except Exception: pass
    last = (None, 'no replay attempted')
    for t in tries:
        last = replay_native(m, os.path.join(VERIF, cex['harness']), cex['function'], t, defines=cex.get('defines', ()),
                             wrapper_src=build.wrapper(wrapper) if use_wrapper_obj else None)
        if last[0]: return last
    return last
