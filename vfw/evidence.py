#!/usr/bin/env python3
"""evidence/<id>.json writer (schema /root/.vp/EVIDENCE.schema.json).  Every number is measured on this run."""
import os, json
from . import build

VERIF = os.path.dirname(os.path.dirname(os.path.abspath(__file__)))

def write(pid, tier, seed, recs, wall, nviol, hm):
    evals = sum(int(r.get('queries') or 0) for r in recs)
    nontriv = sum(int(r.get('nontrivial') or 0) for r in recs)
    proved = [r for r in recs if r['verdict'] == 'proved']
    funcs = sorted({f for r in recs for f in (r.get('functions') or [])})
    assumptions = []
    for r in recs:
        for a in r.get('assumptions') or []:
            if a not in assumptions: assumptions.append(a)
    for a in getattr(hm, 'ASSUMPTIONS', []):
        if a not in assumptions: assumptions.append(a)
    samples = []
    for r in recs:
        s = {'obligation': r['obligation'], 'semantics': r['semantics'], 'engine': r['engine'], 'what': r['what'], 'verdict': r['verdict'],
             'bounds': r.get('bounds'), 'solver_s': r.get('solver_s'), 'wall_s': r.get('wall_s'), 'queries': r.get('queries'),
             'peak_rss_mb': r.get('peak_rss_mb')}
        for k in ('witness', 'validation', 'sample', 'cex', 'replay', 'known_finding', 'detail'):
            if r.get(k) is not None: s[k] = r[k]
        samples.append(s)
    cov = {
        'evaluations': max(evals, 0),
        'distinct_nontrivial': nontriv,
        'rule': 'evaluations = solver queries issued on this run (z3/cvc5 checks, cbmc property decisions); an obligation (query) counts as '
                'non-trivial when its vacuity guard passed on this run: for z3 obligations the negated claim is satisfiable once the '
                'code-derived terms are replaced by unconstrained fresh symbols; for cbmc obligations the -DWITNESS twin reaches the end of '
                'the harness (assert(0) reported FAILED) and, where there is a throw path, the twin asserting "no throw" fails. '
                'Obligations are distinct by construction (different function / table entry / string length / mask pair).',
        'samples': samples,
        'obligations': len(recs),
        'discharged': len(proved),
        'functions_encoded': funcs,
        'solver_time_s': round(sum(float(r.get('solver_s') or 0) for r in recs), 3),
        'exhaustive': False,
        'repo_state': build.repo_state(),
        'technique': 'solver-based bounded checking of the real code: clang-14 IR of /repo working tree -> (E1) generated C -> cbmc 6.11 SAT/SMT, '
                     '(E2) symbolic execution over z3 reals; counterexamples replayed against a g++ build of the same tree',
        'inconclusive': [r['obligation'] for r in recs if r['verdict'] == 'inconclusive'],
        'broken': [r['obligation'] for r in recs if r['verdict'] == 'broken'],
    }
    ev = {'property_id': pid, 'tier': tier, 'seed': seed, 'level': 'model_checking', 'coverage': cov, 'assumptions': assumptions,
          'wall_s': round(wall, 2), 'violations': nviol}
    os.makedirs(os.path.join(VERIF, 'evidence'), exist_ok=True)
    tmp = os.path.join(VERIF, 'evidence', pid + '.json.tmp')
    json.dump(ev, open(tmp, 'w'), indent=1, default=str)
    os.replace(tmp, os.path.join(VERIF, 'evidence', pid + '.json'))
