#!/usr/bin/env python3
"""Front end: compile the real sources from /repo's current working tree to LLVM IR (and to native
shared objects for translator validation / replay).  Nothing is cached between runs."""
import os, re, subprocess, tempfile, atexit, shutil, hashlib

REPO = os.environ.get('VERIF_REPO', '/repo')
VERIF = os.path.dirname(os.path.dirname(os.path.abspath(__file__)))
GUARD = 'GEOGRAPHICLIB_VERIF'

_scratch = None
def scratch():
    global _scratch
    if _scratch is None:
        base = os.environ.get('VERIF_SCRATCH')
        if base:
            os.makedirs(base, exist_ok=True); _scratch = tempfile.mkdtemp(prefix='vf-', dir=base)
        else:
            _scratch = tempfile.mkdtemp(prefix='vf-')
        if not os.environ.get('VERIF_KEEP'):
            atexit.register(lambda: shutil.rmtree(_scratch, ignore_errors=True))
        cfg = os.path.join(_scratch, 'cfg', 'GeographicLib'); os.makedirs(cfg)
        open(os.path.join(cfg, 'Config.h'), 'w').write(config_h())
    return _scratch

def config_h():
    # what CMake's configure_file produces for the default configuration (double precision)
    ver = ('0', '0', '0')
    try:
        txt = open(os.path.join(REPO, 'CMakeLists.txt')).read()
        mo = [re.search(r'set \(PROJECT_VERSION_%s (\d+)\)' % k, txt) for k in ('MAJOR', 'MINOR', 'PATCH')]
        if all(mo): ver = tuple(x.group(1) for x in mo)
    except Exception: pass
    return '''#define GEOGRAPHICLIB_VERSION_STRING "%s.%s"
#define GEOGRAPHICLIB_VERSION_MAJOR %s
#define GEOGRAPHICLIB_VERSION_MINOR %s
#define GEOGRAPHICLIB_VERSION_PATCH %s
#define GEOGRAPHICLIB_DATA "/usr/local/share/GeographicLib"
#define GEOGRAPHICLIB_HAVE_LONG_DOUBLE 1
#define GEOGRAPHICLIB_WORDS_BIGENDIAN 0
#define GEOGRAPHICLIB_PRECISION 2
#if !defined(GEOGRAPHICLIB_SHARED_LIB)
#define GEOGRAPHICLIB_SHARED_LIB 0
#endif
''' % (ver[0], ver[1], ver[0], ver[1], ver[2])

def incflags():
    return ['-I' + os.path.join(scratch(), 'cfg'), '-I' + os.path.join(REPO, 'include'), '-I' + os.path.join(REPO, 'src'),
            '-I' + os.path.join(VERIF, 'wrappers'), '-D' + GUARD + '=1']

CLANG_BASE = ['clang++-14', '-std=c++14', '-ffp-contract=off', '-fno-vectorize', '-fno-slp-vectorize', '-fno-unroll-loops',
              '-fno-access-control', '-DNDEBUG', '-S', '-emit-llvm', '-w']

def compile_ir(src, defines=(), opt='-O1', tag='', flags=()):
    """src: path of a .cpp (a wrapper in /verif/wrappers or a file of /repo/src).  returns IR text"""
    sc = scratch()
    h = hashlib.md5((src + repr(defines) + opt + tag + repr(tuple(flags))).encode()).hexdigest()[:10]
    out = os.path.join(sc, os.path.basename(src).replace('.cpp', '') + '-' + h + '.ll')
    cmd = CLANG_BASE + [opt] + list(flags) + incflags() + ['-D' + d for d in defines] + [src, '-o', out]
    if opt == '-O0':
        cmd = CLANG_BASE + ['-O0', '-Xclang', '-disable-O0-optnone'] + incflags() + ['-D' + d for d in defines] + [src, '-o', out + '.0']
        r = subprocess.run(cmd, capture_output=True, text=True)
        if r.returncode: raise RuntimeError('clang failed: ' + r.stderr[-2000:])
        r = subprocess.run(['opt-14', '-S', '-mem2reg', '-sroa', '-simplifycfg', out + '.0', '-o', out], capture_output=True, text=True)
        if r.returncode: raise RuntimeError('opt failed: ' + r.stderr[-2000:])
    else:
        r = subprocess.run(cmd, capture_output=True, text=True)
        if r.returncode: raise RuntimeError('clang failed: ' + r.stderr[-2000:])
    return open(out).read()

def wrapper(name): return os.path.join(VERIF, 'wrappers', name + '.cpp')
def reposrc(name): return os.path.join(REPO, 'src', name + '.cpp')

def compile_so(srcs, defines=(), extra=(), cxx='g++', opt='-O2'):
    """native build of wrapper units with the shipped compiler (g++ -O2, as the repository's build) for
    translator validation and replay; returns the path of the .so"""
    sc = scratch()
    h = hashlib.md5((repr(srcs) + repr(defines) + repr(extra) + cxx).encode()).hexdigest()[:10]
    out = os.path.join(sc, 'native-' + h + '.so')
    cmd = [cxx, '-std=c++14', opt, '-fPIC', '-shared', '-fno-access-control', '-DNDEBUG', '-w'] + incflags() + ['-D' + d for d in defines] + list(srcs) + list(extra) + ['-o', out]
    r = subprocess.run(cmd, capture_output=True, text=True)
    if r.returncode: raise RuntimeError(cxx + ' failed: ' + r.stderr[-3000:])
    return out

def lib_sources():
    d = os.path.join(REPO, 'src')
    return sorted(os.path.join(d, f) for f in os.listdir(d) if f.endswith('.cpp'))

_libso = {}
SAN = ['-fsanitize=undefined,address,float-cast-overflow', '-fno-sanitize-recover=all', '-fno-omit-frame-pointer', '-g']
def full_lib_so(sanitize=False):
    """the whole library built from the current tree with g++ (-O2; or -O1 with UBSan/ASan for replays)"""
    if sanitize not in _libso:
        sc = scratch(); objs = []
        procs = []
        flags = (['-O1', '-fsanitize=thread', '-g'] if sanitize == 'thread' else ['-O1'] + SAN) if sanitize else ['-O2']
        for src in lib_sources():
            o = os.path.join(sc, 'lib-%s%s.o' % (('tsan-' if sanitize == 'thread' else 'san-') if sanitize else '', os.path.basename(src))); objs.append(o)
            procs.append(subprocess.Popen(['g++', '-std=c++14', '-fPIC', '-DNDEBUG', '-w', '-c'] + flags + incflags() + [src, '-o', o], stderr=subprocess.PIPE))
        for p in procs:
            _, err = p.communicate()
            if p.returncode: raise RuntimeError('g++ failed: ' + err.decode()[-2000:])
        out = os.path.join(sc, 'libGeographicLib_vf%s.so' % (('_tsan' if sanitize == 'thread' else '_san') if sanitize else ''))
        subprocess.check_call(['g++', '-shared', '-o', out] + ((['-fsanitize=thread'] if sanitize == 'thread' else SAN) if sanitize else []) + objs)
        _libso[sanitize] = out
    return _libso[sanitize]

def repo_state():
    """identify the tree being checked (HEAD + dirty hash) for the evidence"""
    try:
        head = subprocess.run(['git', '-C', REPO, 'rev-parse', 'HEAD'], capture_output=True, text=True).stdout.strip()
        diff = subprocess.run(['git', '-C', REPO, 'diff', 'HEAD', '--', 'src', 'include'], capture_output=True, text=True).stdout
        return {'head': head, 'dirty': bool(diff.strip()), 'diff_md5': hashlib.md5(diff.encode()).hexdigest() if diff.strip() else None}
    except Exception as e:
        return {'error': str(e)}
