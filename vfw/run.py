#!/usr/bin/env python3
"""Check driver: runs the obligations of one property in parallel, replays counterexamples against the
real code, applies known_findings.json, writes evidence/<id>.json, prints VIOLATION / KNOWN-FINDING lines.

exit 0  every obligation discharged (solver verdict within the stated bounds), witnesses reachable
exit 1  a solver counterexample was found AND reproduced against the real code (not a listed known finding)
exit 2  the machinery is broken (counterexample did not reproduce, translator validation mismatch, crash)
exit 0  also when some obligation was inconclusive (timeout / unknown / bound exceeded): INCONCLUSIVE lines are printed and the evidence
        records them as not discharged; nothing is claimed for them
"""
import os, sys, json, time, importlib, multiprocessing as mp, signal, traceback, resource, argparse, re, random

VERIF = os.path.dirname(os.path.dirname(os.path.abspath(__file__)))

class Ob:
    """one obligation: fn(ctx) -> dict(verdict=..., ...).  verdict in
    proved | violated | inconclusive | broken.  fn runs in a forked child."""
    def __init__(s, name, fn, sem, engine, desc, timeout=120, mem_gb=8, tier='quick', functions=(), bounds=None, assumptions=()):
        s.name = name; s.fn = fn; s.sem = sem; s.engine = engine; s.desc = desc; s.timeout = timeout; s.mem_gb = mem_gb
        if timeout == 120 and hasattr(fn, 'cbmc_timeout'): s.timeout = fn.cbmc_timeout + 30
        s.tier = tier; s.functions = list(functions); s.bounds = bounds or {}; s.assumptions = list(assumptions)

def _child(ob, ctx, q):
    try:
        os.setsid()
    except Exception: pass
    try:
        lim = int(ob.mem_gb * (1 << 30))
        resource.setrlimit(resource.RLIMIT_AS, (lim, lim))
    except Exception: pass
    t = time.time()
    try:
        r = ob.fn(ctx)
        if not isinstance(r, dict) or 'verdict' not in r: r = {'verdict': 'broken', 'detail': 'harness returned %r' % (r,)}
    except MemoryError:
        r = {'verdict': 'inconclusive', 'detail': 'out of memory (limit %s GB)' % ob.mem_gb}
    except Exception as e:
        from . import rsym
        if isinstance(e, (rsym.Unsupported, rsym.BoundExceeded)):
            r = {'verdict': 'inconclusive', 'detail': '%s: %s' % (type(e).__name__, e)}
        else:
            r = {'verdict': 'broken', 'detail': traceback.format_exc()[-3000:]}
    r['wall_s'] = round(time.time() - t, 3)
    try: r['peak_rss_mb'] = int(max(resource.getrusage(resource.RUSAGE_SELF).ru_maxrss, resource.getrusage(resource.RUSAGE_CHILDREN).ru_maxrss) / 1024)
    except Exception: pass
    try:
        q.put(json.loads(json.dumps(r, default=str)))
    except Exception as e:
        q.put({'verdict': 'broken', 'detail': 'unserialisable result: %s' % e})

def run_obligations(obs, ctx, jobs):
    pending = list(obs); running = []; results = {}
    while pending or running:
        while pending and len(running) < jobs:
            ob = pending.pop(0); q = mp.Queue()
            p = mp.Process(target=_child, args=(ob, ctx, q)); p.start()
            running.append((ob, p, q, time.time()))
        time.sleep(0.05)
        still = []
        for ob, p, q, t0 in running:
            r = None
            try: r = q.get_nowait()
            except Exception: pass
            if r is not None:
                p.join(5); results[ob.name] = r
                try: os.killpg(p.pid, signal.SIGKILL)
                except Exception: pass
                continue
            if not p.is_alive():
                try: r = q.get(timeout=1)
                except Exception: r = {'verdict': 'inconclusive', 'detail': 'child died (exit %s; memory limit %s GB?)' % (p.exitcode, ob.mem_gb), 'wall_s': round(time.time() - t0, 1)}
                results[ob.name] = r; continue
            if time.time() - t0 > ob.timeout:
                try: os.killpg(p.pid, signal.SIGKILL)
                except Exception:
                    try: p.kill()
                    except Exception: pass
                p.join(5)
                results[ob.name] = {'verdict': 'inconclusive', 'detail': 'timeout after %ds' % ob.timeout, 'wall_s': round(time.time() - t0, 1)}
                continue
            still.append((ob, p, q, t0))
        running = still
    return results

def load_known():
    p = os.path.join(VERIF, 'known_findings.json')
    if not os.path.exists(p): return []
    return json.load(open(p)).get('findings', [])

def match_known(known, pid, obname, cex):
    """a known finding matches a reproduced violation if property and obligation pattern match and every
    key of its 'match' dict equals (or regex-matches, for strings starting with 're:') the counterexample's"""
    for k in known:
        if k.get('status') != 'known': continue
        if k.get('property') != pid: continue
        if k.get('obligation') and not re.fullmatch(k['obligation'], obname): continue
        ok = True
        for key, want in (k.get('match') or {}).items():
            got = (cex or {}).get(key)
            if isinstance(want, str) and want.startswith('re:'):
                if got is None or not re.fullmatch(want[3:], str(got)): ok = False
            elif got != want: ok = False
        if ok: return k
    return None

def main(argv=None):
    ap = argparse.ArgumentParser()
    ap.add_argument('pid')
    ap.add_argument('--tier', default=os.environ.get('VERIF_TIER', 'quick'))
    ap.add_argument('--only', default=None, help='regex on obligation names')
    ap.add_argument('--jobs', type=int, default=int(os.environ.get('VERIF_JOBS', '14')))
    ap.add_argument('--replay', default=None)
    ap.add_argument('--list', action='store_true')
    ap.add_argument('--no-evidence', action='store_true')
    a = ap.parse_args(argv)
    tier = a.tier if a.tier in ('quick', 'thorough') else 'quick'
    seed = int(os.environ.get('VERIF_SEED', '0') or 0)
    sys.path.insert(0, VERIF)
    hm = importlib.import_module('harness.' + a.pid)
    t0 = time.time()
    if a.replay:
        rp = json.load(open(a.replay))
        ok, msg = hm.replay(rp)
        print(('REPRODUCED: ' if ok else 'NOT REPRODUCED: ') + msg)
        return 1 if ok else 0
    ctx = {'tier': tier, 'seed': seed, 'pid': a.pid}
    try:
        if hasattr(hm, 'prepare'): hm.prepare(ctx)
        obs = hm.obligations(ctx)
    except Exception:
        print('BROKEN: prepare/obligations failed for %s\n%s' % (a.pid, traceback.format_exc()))
        return 2
    obs = [o for o in obs if tier == 'thorough' or o.tier == 'quick']
    if a.only: obs = [o for o in obs if re.search(a.only, o.name)]
    if a.list:
        for o in obs: print(o.name, '|', o.sem, o.engine, '|', o.desc)
        return 0
    results = run_obligations(obs, ctx, a.jobs)
    known = load_known()
    viol = []; knownhits = []; broken = []; inconc = []; proved = []
    recs = []
    for o in obs:
        r = results[o.name]; v = r.get('verdict')
        rec = {'obligation': o.name, 'semantics': o.sem, 'engine': o.engine, 'what': o.desc, 'functions': o.functions or r.get('functions', []),
               'bounds': dict(o.bounds, **r.get('bounds', {})), 'verdict': v, 'wall_s': r.get('wall_s'), 'solver_s': r.get('solver_s'),
               'queries': r.get('queries', 0), 'nontrivial': r.get('nontrivial', 0), 'peak_rss_mb': r.get('peak_rss_mb'),
               'witness': r.get('witness'), 'validation': r.get('validation'), 'detail': r.get('detail'),
               'assumptions': o.assumptions + r.get('assumptions', []), 'sample': r.get('sample')}
        if v == 'violated':
            cex = r.get('cex') or {}
            rec['cex'] = cex
            # replay against the real code (native g++ build of the current tree)
            try:
                rp = {'property': a.pid, 'obligation': o.name, 'cex': cex, 'what': o.desc}
                ok, msg = hm.replay(rp)
            except Exception:
                ok, msg = None, 'replay crashed: ' + traceback.format_exc()[-1500:]
            rec['replay'] = {'reproduced': ok, 'message': msg}
            if ok:
                d = os.path.join(VERIF, 'evidence', 'replay', a.pid); os.makedirs(d, exist_ok=True)
                path = os.path.join(d, re.sub(r'[^\w.-]', '_', o.name) + '.json')
                json.dump(dict(rp, replay_message=msg, replay_cmd='./check %s --replay %s' % (a.pid, path)), open(path, 'w'), indent=1, default=str)
                k = match_known(known, a.pid, o.name, cex)
                msg = msg + ' | solver: ' + str(r.get('detail'))[:400]
                if k: knownhits.append((o, k, msg)); rec['known_finding'] = k.get('id')
                else: viol.append((o, path, msg))
            else:
                rec['verdict'] = 'broken'; broken.append((o, 'counterexample did not reproduce against the real code: %s | failed: %s | cex=%s' % (msg, r.get('detail'), json.dumps({k: (v.get('repr', v) if isinstance(v, dict) else v) for k, v in (cex.get('inputs') or cex).items()} if isinstance(cex, dict) else cex, default=str)[:900])))
        elif v == 'proved': proved.append(o)
        elif v == 'inconclusive': inconc.append((o, r.get('detail')))
        else: broken.append((o, r.get('detail')))
        recs.append(rec)
    wall = time.time() - t0
    for o, k, msg in knownhits:
        print('KNOWN-FINDING: property=%s %s [%s] %s' % (a.pid, k.get('id', ''), o.name, k.get('what', msg)))
    for o, path, msg in viol:
        print('VIOLATION property=%s replay=%s' % (a.pid, path))
        print('  obligation %s: %s' % (o.name, msg))
    for o, d in broken: print('BROKEN %s: %s' % (o.name, str(d)[-1500:]))
    for o, d in inconc: print('INCONCLUSIVE %s: %s' % (o.name, str(d)[:600]))
    nq = sum(r.get('queries', 0) for r in results.values())
    print('%s tier=%s: %d obligations, %d proved, %d violated (%d known), %d inconclusive, %d broken; %d solver queries; %.1fs'
          % (a.pid, tier, len(obs), len(proved), len(viol) + len(knownhits), len(knownhits), len(inconc), len(broken), nq, wall))
    if not a.no_evidence and not a.only:
        from . import evidence
        evidence.write(a.pid, tier, seed, recs, wall, len(viol), hm)
    if viol: return 1
    if broken: return 2
    # inconclusive obligations (solver timeout / memory / bound exceeded) decide nothing: they are printed above, recorded in the evidence with
    # their verdict and excluded from the discharged count; the property held on everything that was explored
    return 0

if __name__ == '__main__':
    sys.exit(main())
