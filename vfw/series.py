#!/usr/bin/env python3
"""Oracle 1: first-principles derivation of the geodesic / auxiliary-latitude series, exact rationals.

Objects are truncated multivariate power series (total degree <= N in the small parameters, e.g.
(n, eps)) whose coefficients are trigonometric polynomials in one angle x:
    F = sum_{mono} sum_j  a[mono,('c',j)] cos(j x) + a[mono,('s',j)] sin(j x)
stored as {(mono, kind, j): Fraction}.  Nothing here looks at the repository's tables.
"""
from fractions import Fraction
from functools import lru_cache

class TS:
    """truncated power series with trig-polynomial coefficients"""
    __slots__ = ('d', 'nv', 'N')
    def __init__(s, nv, N, d=None): s.nv = nv; s.N = N; s.d = d or {}
    @staticmethod
    def const(nv, N, c): return TS(nv, N, {((0,) * nv, 'c', 0): Fraction(c)} if c else {})
    @staticmethod
    def var(nv, N, i):
        m = [0] * nv; m[i] = 1; return TS(nv, N, {(tuple(m), 'c', 0): Fraction(1)})
    @staticmethod
    def cos(nv, N, j): return TS(nv, N, {((0,) * nv, 'c', abs(j)): Fraction(1)})
    @staticmethod
    def sin(nv, N, j):
        if j == 0: return TS(nv, N)
        return TS(nv, N, {((0,) * nv, 's', abs(j)): Fraction(1 if j > 0 else -1)})
    def copy(s): return TS(s.nv, s.N, dict(s.d))
    def _acc(s, k, v):
        if v == 0: return
        x = s.d.get(k, 0) + v
        if x == 0: s.d.pop(k, None)
        else: s.d[k] = x
    def __add__(s, o):
        if not isinstance(o, TS): o = TS.const(s.nv, s.N, o)
        r = s.copy()
        for k, v in o.d.items(): r._acc(k, v)
        return r
    __radd__ = __add__
    def __neg__(s): return TS(s.nv, s.N, {k: -v for k, v in s.d.items()})
    def __sub__(s, o): return s + (-o if isinstance(o, TS) else -Fraction(o))
    def __rsub__(s, o): return (-s) + o
    def scale(s, c):
        c = Fraction(c); return TS(s.nv, s.N, {k: v * c for k, v in s.d.items()} if c else {})
    def __mul__(s, o):
        if not isinstance(o, TS): return s.scale(o)
        r = TS(s.nv, s.N); N = s.N
        for (m1, k1, j1), v1 in s.d.items():
            d1 = sum(m1)
            for (m2, k2, j2), v2 in o.d.items():
                if d1 + sum(m2) > N: continue
                m = tuple(a + b for a, b in zip(m1, m2)); v = v1 * v2 / 2
                if k1 == 'c' and k2 == 'c':
                    r._acc((m, 'c', abs(j1 - j2)), v); r._acc((m, 'c', j1 + j2), v)
                elif k1 == 's' and k2 == 's':
                    r._acc((m, 'c', abs(j1 - j2)), v); r._acc((m, 'c', j1 + j2), -v)
                else:
                    if k1 == 'c': js, jc = j2, j1
                    else: js, jc = j1, j2
                    r._acc((m, 's', js + jc), v)        # sin a cos b = (sin(a+b) + sin(a-b))/2
                    if js != jc: r._acc((m, 's', abs(js - jc)), v if js > jc else -v)
        return r
    __rmul__ = __mul__
    def pow(s, k):
        r = TS.const(s.nv, s.N, 1)
        for _ in range(k): r = r * s
        return r
    def const_term(s):
        """the part of degree 0 in the small parameters (a trig polynomial)"""
        return TS(s.nv, s.N, {k: v for k, v in s.d.items() if sum(k[0]) == 0})
    def ddx(s):
        r = TS(s.nv, s.N)
        for (m, k, j), v in s.d.items():
            if j == 0: continue
            if k == 'c': r._acc((m, 's', j), -v * j)
            else: r._acc((m, 'c', j), v * j)
        return r
    def integ(s):
        """antiderivative in x of the oscillating part; the mean (j = 0 cosine) part is returned separately"""
        r = TS(s.nv, s.N); mean = TS(s.nv, s.N)
        for (m, k, j), v in s.d.items():
            if j == 0:
                if k == 'c': mean._acc((m, 'c', 0), v)
                continue
            if k == 'c': r._acc((m, 's', j), v / j)
            else: r._acc((m, 'c', j), -v / j)
        return mean, r
    def coeff(s, kind, j):
        """{mono: Fraction} of cos/sin(j x)"""
        return {m: v for (m, k, jj), v in s.d.items() if k == kind and jj == j}
    def subst_param(s, i, expr_series):
        raise NotImplementedError
    def trunc(s, N):
        return TS(s.nv, N, {k: v for k, v in s.d.items() if sum(k[0]) <= N})

def binom(a, j):
    c = Fraction(1); a = Fraction(a)
    for i in range(j): c *= (a - i) / (i + 1)
    return c

def fpow(X, a, N):
    """(1 + X)^a for a series X without constant term (in the small parameters)"""
    nv = X.nv; r = TS.const(nv, N, 1); p = TS.const(nv, N, 1)
    for k in range(1, N + 1):
        p = p * X; r = r + p.scale(binom(a, k))
    return r

def finv(D, N):
    """1/D where D = d0 + X, d0 a nonzero rational constant"""
    nv = D.nv; d0 = D.d.get(((0,) * nv, 'c', 0), 0)
    assert d0 != 0 and all(sum(k[0]) > 0 or k == ((0,) * nv, 'c', 0) for k in D.d), 'finv needs constant leading term'
    X = (D - d0).scale(Fraction(1) / d0)
    return fpow(X, -1, N).scale(Fraction(1) / d0)

def fdiv_mean(G, g0, N):
    """G / g0 where g0 is a pure power series (no x dependence) with nonzero constant term"""
    return G * finv(g0, N)

# ---------------------------------------------------------------- geodesic integrals (Karney 2013)
def _R(nv, N, ieps, a):
    """(1 - 2 eps cos 2x + eps^2)^a"""
    eps = TS.var(nv, N, ieps)
    X = eps * eps - (eps * TS.cos(nv, N, 2)).scale(2)
    return fpow(X, a, N)

def split_mean(F):
    mean = TS(F.nv, F.N, {k: v for k, v in F.d.items() if k[2] == 0 and k[1] == 'c'})
    osc = TS(F.nv, F.N, {k: v for k, v in F.d.items() if not (k[2] == 0 and k[1] == 'c')})
    return mean, osc

def geod_I1(N):
    """I1 = int sqrt(1+k^2 sin^2 s) ds = A1 (s + sum C1_l sin 2ls);  returns (A1 as {(k,):c} in eps incl. the
    1/(1-eps) factor expanded? no: returns (t, C1) with A1 = (1+t)/(1-eps), t series, C1[l] series)"""
    F = _R(1, N, 0, Fraction(1, 2))            # (1-eps) * integrand
    g0, osc = split_mean(F)
    _, I = osc.integ()
    C = I * finv(g0, N)
    t = g0 - 1
    return t, {l: C.coeff('s', 2 * l) for l in range(1, N + 1)}

def geod_I2(N):
    """I2 = int 1/sqrt(1+k^2 sin^2 s) ds = A2 (s + sum C2_l sin 2ls); A2 = (1-eps)(1+t)... returns (t, C2)
    where the mean of (1-2 eps cos + eps^2)^(-1/2) is 1+t and A2 = (1-eps)(1+t)"""
    F = _R(1, N, 0, Fraction(-1, 2))
    g0, osc = split_mean(F)
    _, I = osc.integ()
    C = I * finv(g0, N)
    return g0 - 1, {l: C.coeff('s', 2 * l) for l in range(1, N + 1)}

def revert(Cs, nv, N):
    """given tau = x + sum_l Cs[l] sin(2 l x) (Cs[l] = {mono: c}, each O(small)), return Cp with
    x = tau + sum_l Cp[l] sin(2 l tau)   (Lagrange/fixed-point iteration on truncated series)"""
    def S_of(delta):
        # sum_l C_l sin(2l (t + delta)) expanded in delta (delta = O(small))
        r = TS(nv, N)
        for l, cl in Cs.items():
            base = TS(nv, N, {(m, 's', 2 * l): v for m, v in cl.items()})
            term = base; fact = Fraction(1); dp = TS.const(nv, N, 1); r = r + base
            d = base
            for k in range(1, N + 1):
                d = d.ddx(); dp = dp * delta; fact *= k
                r = r + (d * dp).scale(Fraction(1) / fact)
        return r
    delta = TS(nv, N)
    for _ in range(N + 1):
        delta = -S_of(delta)
    return {l: delta.coeff('s', 2 * l) for l in range(1, N + 1)}

def geod_C1p(N):
    t, C1 = geod_I1(N)
    return revert(C1, 1, N)

def geod_I3(N):
    """variables (n, eps).  I3 integrand = 2(1-eps)/((1+n)(1-eps) + (1-n) R), R = sqrt(1-2 eps cos 2s + eps^2).
    returns (A3 {mono:c}, C3 {l: {mono:c}})"""
    nv = 2; n = TS.var(nv, N, 0); eps = TS.var(nv, N, 1); one = TS.const(nv, N, 1)
    R = _R(nv, N, 1, Fraction(1, 2))
    D = (one + n) * (one - eps) + (one - n) * R
    F = (one - eps).scale(2) * finv(D, N)
    g0, osc = split_mean(F)
    _, I = osc.integ()
    C = I * finv(g0, N)
    return g0.coeff('c', 0), {l: C.coeff('s', 2 * l) for l in range(1, N + 1)}

# ---------------------------------------------------------------- auxiliary latitudes (closed forms in n)
def aux_tan_ratio(N, r_num_den):
    """if tan(out) = ((1-m)/(1+m)) tan(in) then out - in = sum_j (-m)^j / j sin(2 j in)  (classical).
    r_num_den: function giving m as a power series in n (TS, nv=1).  returns {j: {mono:c}}"""
    m = r_num_den
    out = {}; p = TS.const(1, N, 1)
    for j in range(1, N + 1):
        p = p * (-m)
        out[j] = p.scale(Fraction(1, j)).coeff('c', 0)
    return out

def aux_series(N):
    """returns dict (out,in) -> {j: {mono:c}} for the pairs derivable in closed form:
    phi=0, beta=1, theta=2, mu=3 (numbering as AuxLatitude)"""
    n = TS.var(1, N, 0); one = TS.const(1, N, 1)
    res = {}
    res[('beta', 'phi')] = aux_tan_ratio(N, n)                 # tan beta = (1-n)/(1+n) tan phi
    res[('phi', 'beta')] = aux_tan_ratio(N, -n)
    m2 = n.scale(2) * finv(one + n * n, N)                      # ((1-n)/(1+n))^2 = (1-m)/(1+m), m = 2n/(1+n^2)
    res[('theta', 'phi')] = aux_tan_ratio(N, m2)
    res[('phi', 'theta')] = aux_tan_ratio(N, -m2)
    res[('theta', 'beta')] = aux_tan_ratio(N, n)
    res[('beta', 'theta')] = aux_tan_ratio(N, -n)
    # rectifying from parametric: meridian arc = I1 with eps = n
    t, C1 = geod_I1(N)
    res[('mu', 'beta')] = C1
    res[('beta', 'mu')] = revert(C1, 1, N)
    return res

def compose(A, B, nv, N):
    """series composition: if  y = x + sum A_l sin(2 l x)  and  z = y + sum B_l sin(2 l y)  then
    z = x + sum C_l sin(2 l x); returns C"""
    delta = TS(nv, N)
    for l, cl in A.items():
        delta = delta + TS(nv, N, {(m, 's', 2 * l): v for m, v in cl.items()})
    r = delta.copy()
    for l, cl in B.items():
        base = TS(nv, N, {(m, 's', 2 * l): v for m, v in cl.items()})
        r = r + base; d = base; dp = TS.const(nv, N, 1); fact = Fraction(1)
        for k in range(1, N + 1):
            d = d.ddx(); dp = dp * delta; fact *= k
            r = r + (d * dp).scale(Fraction(1) / fact)
    return {l: r.coeff('s', 2 * l) for l in range(1, N + 1)}

def mono_poly_z3(coeffs, vars_, maxdeg=None):
    """{mono: Fraction} -> z3 real term in Horner-free explicit monomial form (products built by repeated
    multiplication, never x**0)"""
    import z3
    tot = z3.RealVal(0)
    for mono, c in sorted(coeffs.items()):
        if maxdeg is not None and sum(mono) > maxdeg: continue
        term = z3.RealVal(str(c))
        for v, e in zip(vars_, mono):
            for _ in range(e): term = term * v
        tot = tot + term
    return tot

def mono_poly_eval(coeffs, vals, maxdeg=None):
    tot = Fraction(0)
    for mono, c in coeffs.items():
        if maxdeg is not None and sum(mono) > maxdeg: continue
        t = c
        for v, e in zip(vals, mono): t *= Fraction(v) ** e
        tot += t
    return tot
