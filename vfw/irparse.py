#!/usr/bin/env python3
"""LLVM-14 textual IR reader shared by both engines (E1 cgen, E2 rsym).

Parses the subset of IR that clang++-14 -O1/-O0 emits for GeographicLib's
translation units: named/literal types, global initialisers, functions with
basic blocks, and every instruction into a small structured record (Ins).
"""
import re, struct
from fractions import Fraction

# ---------------------------------------------------------------- types
class T: pass
class IntT(T):
    def __init__(s, n): s.n = n
    def size(s, m): return max(1, (s.n + 7) // 8)
    def align(s, m): return min(8, s.size(m)) if s.n <= 64 else 16
    def __repr__(s): return 'i%d' % s.n
class FltT(T):
    def __init__(s, k): s.k = k
    def size(s, m): return {'float': 4, 'double': 8, 'x86_fp80': 16}[s.k]
    def align(s, m): return s.size(m)
    def __repr__(s): return s.k
class PtrT(T):
    def __init__(s, to): s.to = to
    def size(s, m): return 8
    def align(s, m): return 8
    def __repr__(s): return 'ptr'
class ArrT(T):
    def __init__(s, n, el, vec=False): s.n = n; s.el = el; s.vec = vec
    def size(s, m): return s.n * s.el.size(m)
    def align(s, m): return s.el.align(m)
    def __repr__(s): return '[%d x %r]' % (s.n, s.el)
class StructT(T):
    def __init__(s, els, packed=False): s.els = els; s.packed = packed
    def layout(s, m):
        off = 0; offs = []; al = 1
        for e in s.els:
            a = 1 if s.packed else e.align(m)
            al = max(al, a)
            off = (off + a - 1) // a * a
            offs.append(off); off += e.size(m)
        tot = (off + al - 1) // al * al
        return offs, tot, al
    def size(s, m): return s.layout(m)[1]
    def align(s, m): return s.layout(m)[2]
    def __repr__(s): return '{%s}' % ','.join(map(repr, s.els))
class NamedT(T):
    def __init__(s, name): s.name = name
    def res(s, m): return m.types[s.name]
    def size(s, m): return s.res(m).size(m)
    def align(s, m): return s.res(m).align(m)
    def __repr__(s): return s.name
class VoidT(T):
    def __repr__(s): return 'void'
class FnT(T):
    def size(s, m): return 8
    def align(s, m): return 8
    def __repr__(s): return 'fn'
class OpaqueT(T):
    def size(s, m): return 0
    def align(s, m): return 1
    def __repr__(s): return 'opaque'
class MetaT(T):
    def __repr__(s): return 'metadata'

def resolve(t, m):
    while isinstance(t, NamedT): t = t.res(m)
    return t

# ---------------------------------------------------------------- lexer
class Lex:
    tok = re.compile(r'\s*(%"(?:[^"\\]|\\.)*"|@"(?:[^"\\]|\\.)*"|c"(?:[^"])*"|"(?:[^"\\]|\\.)*"|[%@][-\w.$]+|<\{|\}>|\.\.\.|[-+]?\d+\.\d*(?:e[-+]?\d+)?|0x[KLMHR]?[0-9A-Fa-f]+|[-+]?\d+|[A-Za-z_][\w.]*|!\d+|![\w.]+|[\[\]{}()<>,=*#!])')
    def __init__(s, text):
        s.t = []; pos = 0; n = len(text)
        while pos < n:
            mo = s.tok.match(text, pos)
            if not mo:
                if text[pos:].strip() == '': break
                raise ValueError('lex: ' + text[pos:pos + 60])
            s.t.append(mo.group(1)); pos = mo.end()
        s.i = 0
    def peek(s, k=0): return s.t[s.i + k] if s.i + k < len(s.t) else None
    def next(s): s.i += 1; return s.t[s.i - 1]
    def eat(s, x):
        if s.peek() == x: s.i += 1; return True
        return False
    def expect(s, x):
        if not s.eat(x):
            raise ValueError('expected %s got %s in %s' % (x, s.peek(), ' '.join(s.t[max(0, s.i - 6):s.i + 6])))

def parse_type(lx, nofn=False):
    t = lx.next()
    if re.fullmatch(r'i\d+', t): ty = IntT(int(t[1:]))
    elif t in ('double', 'float', 'x86_fp80'): ty = FltT(t)
    elif t == 'void': ty = VoidT()
    elif t == 'opaque': ty = OpaqueT()
    elif t == 'metadata': ty = MetaT()
    elif t == 'ptr': ty = PtrT(IntT(8))
    elif t[0] == '%': ty = NamedT(t)
    elif t == '[':
        n = int(lx.next()); lx.expect('x'); el = parse_type(lx); lx.expect(']'); ty = ArrT(n, el)
    elif t == '{' or t == '<{':
        els = []
        close = '}' if t == '{' else '}>'
        while not lx.eat(close):
            els.append(parse_type(lx)); lx.eat(',')
        ty = StructT(els, t == '<{')
    elif t == '<':
        n = int(lx.next()); lx.expect('x'); el = parse_type(lx); lx.expect('>'); ty = ArrT(n, el, vec=True)
    else:
        raise ValueError('type? ' + t)
    while True:
        if lx.peek() == '*': lx.next(); ty = PtrT(ty)
        elif lx.peek() == '(' and not nofn:
            depth = 0
            while True:
                x = lx.next()
                if x == '(': depth += 1
                elif x == ')':
                    depth -= 1
                    if depth == 0: break
            ty = FnT()
        else: break
    return ty

# ---------------------------------------------------------------- values
class V:
    def __init__(self, kind, ty, **kw): self.kind = kind; self.ty = ty; self.__dict__.update(kw)
    def __repr__(s): return 'V(%s,%r,%s)' % (s.kind, s.ty, {k: v for k, v in s.__dict__.items() if k not in ('kind', 'ty')})

ATTRS = {'noundef', 'nonnull', 'noalias', 'nocapture', 'readonly', 'writeonly', 'signext', 'zeroext', 'returned',
         'inreg', 'nest', 'immarg', 'readnone', 'nofree', 'inrange', 'swiftself', 'nounwind', 'noreturn'}
def skip_attrs(lx):
    while True:
        p = lx.peek()
        if p in ATTRS: lx.next()
        elif p in ('align', 'dereferenceable', 'dereferenceable_or_null'):
            lx.next()
            if lx.eat('('): lx.next(); lx.expect(')')
            else: lx.next()
        elif p in ('sret', 'byval', 'byref', 'preallocated', 'inalloca', 'elementtype'):
            lx.next(); lx.expect('('); parse_type(lx); lx.expect(')')
        else: break

def flt_const(txt, ty=None):
    """IR float literal -> python float (exact)"""
    if txt.startswith('0x'):
        h = txt[2:]
        if h[0] in 'KLMHR':
            if h[0] == 'K':   # x86_fp80: 20 hex digits
                v = int(h[1:], 16); sign = v >> 79; exp = (v >> 64) & 0x7fff; man = v & ((1 << 64) - 1)
                if exp == 0x7fff: return float('nan') if man << 1 & ((1 << 64) - 1) else (float('-inf') if sign else float('inf'))
                f = Fraction(man, 1 << 63) * (Fraction(2) ** (exp - 16383))
                return float(-f if sign else f)
            raise ValueError('float literal ' + txt)
        return struct.unpack('>d', bytes.fromhex(h.rjust(16, '0')))[0]
    return float(txt)

def parse_value(lx, ty):
    p = lx.peek()
    if p[0] == '%': lx.next(); return V('local', ty, name=p)
    if p[0] == '@': lx.next(); return V('global', ty, name=p)
    if p in ('true', 'false'): lx.next(); return V('int', ty, val=1 if p == 'true' else 0)
    if p == 'null': lx.next(); return V('null', ty)
    if p in ('undef', 'poison'): lx.next(); return V('zero', ty, undef=True)
    if p == 'zeroinitializer': lx.next(); return V('zero', ty, undef=False)
    if p.startswith('c"'): lx.next(); return V('cstr', ty, s=p[2:-1])
    if re.fullmatch(r'[-+]?\d+', p) and not isinstance(ty, FltT): lx.next(); return V('int', ty, val=int(p))
    if re.fullmatch(r'[-+]?\d+\.\d*(e[-+]?\d+)?|0x[KLMHR]?[0-9A-Fa-f]+|[-+]?\d+', p): lx.next(); return V('flt', ty, s=p, f=flt_const(p))
    if p in ('getelementptr', 'bitcast', 'inttoptr', 'ptrtoint', 'addrspacecast', 'trunc', 'zext', 'sext'):
        lx.next(); op = p
        if op == 'getelementptr':
            lx.eat('inbounds'); lx.expect('('); bt = parse_type(lx); lx.expect(',')
            ops = []
            while True:
                skip_attrs(lx)
                t = parse_type(lx); ops.append(parse_value(lx, t))
                if not lx.eat(','): break
            lx.expect(')')
            return V('cgep', ty, base_ty=bt, ops=ops)
        lx.expect('('); t = parse_type(lx); v = parse_value(lx, t); lx.expect('to'); t2 = parse_type(lx); lx.expect(')')
        return V('ccast', ty, op=op, v=v, to=t2)
    if p in ('add', 'sub', 'mul', 'and', 'or', 'xor', 'shl', 'lshr'):
        lx.next()
        while lx.peek() in ('nsw', 'nuw'): lx.next()
        lx.expect('('); t = parse_type(lx); a = parse_value(lx, t); lx.expect(','); t2 = parse_type(lx); b = parse_value(lx, t2); lx.expect(')')
        return V('cbin', ty, op=p, a=a, b=b)
    if p in ('[', '{', '<{', '<'):
        lx.next(); close = {'[': ']', '{': '}', '<{': '}>', '<': '>'}[p]
        els = []
        while not lx.eat(close):
            t = parse_type(lx); els.append(parse_value(lx, t)); lx.eat(',')
        return V('agg', ty, els=els)
    raise ValueError('value? %s' % p)

def unesc(x):
    out = []; i = 0
    while i < len(x):
        if x[i] == '\\': out.append(int(x[i + 1:i + 3], 16)); i += 3
        else: out.append(ord(x[i])); i += 1
    return out

# ---------------------------------------------------------------- instructions
class Ins:
    """op, dest (or None), and op-specific fields"""
    def __init__(s, op, dest=None, **kw): s.op = op; s.dest = dest; s.__dict__.update(kw)
    def __repr__(s): return 'Ins(%s)' % s.text

FMF = ('fast', 'nnan', 'ninf', 'nsz', 'arcp', 'contract', 'afn', 'reassoc')
BINOPS = ('add', 'sub', 'mul', 'and', 'or', 'xor', 'shl', 'lshr', 'ashr', 'sdiv', 'udiv', 'srem', 'urem')
FBINOPS = ('fadd', 'fsub', 'fmul', 'fdiv', 'frem')
CASTS = ('trunc', 'zext', 'sext', 'bitcast', 'ptrtoint', 'inttoptr', 'sitofp', 'uitofp', 'fptosi', 'fptoui', 'fpext', 'fptrunc', 'addrspacecast')

_md = re.compile(r', !\w[\w.]* !\d+')
_md2 = re.compile(r', !\w[\w.]* !\{[^}]*\}')
_attrgrp = re.compile(r' #\d+')

def parse_instr(l):
    text = l
    l = _md.sub('', l); l = _md2.sub('', l); l = _attrgrp.sub('', l)
    dest = None
    mo = re.match(r'(%"(?:[^"\\]|\\.)*"|%[-\w.$]+) = (.*)$', l)
    if mo: dest, l = mo.group(1), mo.group(2)
    lx = Lex(l); op = lx.next()
    tail = None
    if op in ('tail', 'musttail', 'notail'): tail = op; op = lx.next()
    I = Ins(op, dest, text=text)
    if op in BINOPS:
        I.flags = set()
        while lx.peek() in ('nsw', 'nuw', 'exact'): I.flags.add(lx.next())
        I.ty = parse_type(lx); I.a = parse_value(lx, I.ty); lx.expect(','); I.b = parse_value(lx, I.ty)
    elif op in FBINOPS:
        while lx.peek() in FMF: lx.next()
        I.ty = parse_type(lx); I.a = parse_value(lx, I.ty); lx.expect(','); I.b = parse_value(lx, I.ty)
    elif op == 'fneg':
        while lx.peek() in FMF: lx.next()
        I.ty = parse_type(lx); I.a = parse_value(lx, I.ty)
    elif op == 'icmp':
        I.cc = lx.next(); I.ty = parse_type(lx); I.a = parse_value(lx, I.ty); lx.expect(','); I.b = parse_value(lx, I.ty)
    elif op == 'fcmp':
        while lx.peek() in FMF: lx.next()
        I.cc = lx.next(); I.ty = parse_type(lx); I.a = parse_value(lx, I.ty); lx.expect(','); I.b = parse_value(lx, I.ty)
    elif op in CASTS:
        I.ty = parse_type(lx); I.a = parse_value(lx, I.ty); lx.expect('to'); I.to = parse_type(lx)
    elif op == 'freeze':
        I.ty = parse_type(lx); I.a = parse_value(lx, I.ty)
    elif op == 'alloca':
        lx.eat('inalloca'); I.ty = parse_type(lx); I.n = None; I.align = 1
        while lx.eat(','):
            if lx.eat('align'): I.align = int(lx.next())
            elif lx.peek() == 'addrspace': break
            else: t = parse_type(lx); I.n = parse_value(lx, t)
    elif op == 'load':
        I.atomic = lx.eat('atomic'); I.volatile = lx.eat('volatile'); I.ty = parse_type(lx); lx.expect(',')
        pt = parse_type(lx); I.p = parse_value(lx, pt)
    elif op == 'store':
        I.atomic = lx.eat('atomic'); I.volatile = lx.eat('volatile'); I.ty = parse_type(lx); I.v = parse_value(lx, I.ty); lx.expect(',')
        pt = parse_type(lx); I.p = parse_value(lx, pt)
    elif op == 'getelementptr':
        I.inbounds = lx.eat('inbounds'); I.bt = parse_type(lx); lx.expect(','); I.ops = []
        while True:
            t = parse_type(lx); I.ops.append(parse_value(lx, t))
            if not lx.eat(','): break
    elif op == 'select':
        while lx.peek() in FMF: lx.next()
        t1 = parse_type(lx); I.c = parse_value(lx, t1); lx.expect(','); I.ty = parse_type(lx); I.a = parse_value(lx, I.ty); lx.expect(',')
        t3 = parse_type(lx); I.b = parse_value(lx, t3)
    elif op == 'phi':
        while lx.peek() in FMF: lx.next()
        I.ty = parse_type(lx); I.inc = []
        while lx.eat('['):
            v = parse_value(lx, I.ty); lx.expect(','); p = lx.next(); lx.expect(']'); lx.eat(',')
            I.inc.append((v, p))
    elif op == 'br':
        if lx.eat('label'): I.c = None; I.t = lx.next(); I.f = None
        else:
            t1 = parse_type(lx); I.c = parse_value(lx, t1); lx.expect(','); lx.expect('label'); I.t = lx.next(); lx.expect(','); lx.expect('label'); I.f = lx.next()
    elif op == 'switch':
        I.ty = parse_type(lx); I.v = parse_value(lx, I.ty); lx.expect(','); lx.expect('label'); I.dflt = lx.next(); lx.expect('['); I.cases = []
        while not lx.eat(']'):
            t = parse_type(lx); cv = parse_value(lx, t); lx.expect(','); lx.expect('label'); I.cases.append((cv, lx.next()))
    elif op == 'ret':
        I.ty = parse_type(lx); I.v = None if isinstance(I.ty, VoidT) else parse_value(lx, I.ty)
    elif op in ('unreachable',):
        pass
    elif op == 'resume':
        I.ty = parse_type(lx); I.v = parse_value(lx, I.ty)
    elif op == 'landingpad':
        I.ty = parse_type(lx); I.cleanup = False; I.catches = []
        while lx.peek() is not None:
            if lx.eat('cleanup'): I.cleanup = True
            elif lx.eat('catch'):
                t = parse_type(lx); I.catches.append(parse_value(lx, t))
            elif lx.eat('filter'):
                t = parse_type(lx); parse_value(lx, t)
            else: raise ValueError('landingpad: ' + str(lx.peek()))
    elif op == 'extractvalue':
        I.ty = parse_type(lx); I.a = parse_value(lx, I.ty); I.idx = []
        while lx.eat(','): I.idx.append(int(lx.next()))
    elif op == 'insertvalue':
        I.ty = parse_type(lx); I.a = parse_value(lx, I.ty); lx.expect(','); I.vty = parse_type(lx); I.v = parse_value(lx, I.vty); I.idx = []
        while lx.eat(','): I.idx.append(int(lx.next()))
    elif op in ('extractelement',):
        I.ty = parse_type(lx); I.a = parse_value(lx, I.ty); lx.expect(','); t = parse_type(lx); I.i = parse_value(lx, t)
    elif op in ('insertelement',):
        I.ty = parse_type(lx); I.a = parse_value(lx, I.ty); lx.expect(','); I.vty = parse_type(lx); I.v = parse_value(lx, I.vty); lx.expect(','); t = parse_type(lx); I.i = parse_value(lx, t)
    elif op == 'atomicrmw':
        lx.eat('volatile'); I.rmw = lx.next(); pt = parse_type(lx); I.p = parse_value(lx, pt); lx.expect(','); I.ty = parse_type(lx); I.v = parse_value(lx, I.ty)
    elif op == 'cmpxchg':
        lx.eat('weak'); lx.eat('volatile'); pt = parse_type(lx); I.p = parse_value(lx, pt); lx.expect(','); I.ty = parse_type(lx); I.cmp = parse_value(lx, I.ty); lx.expect(','); t = parse_type(lx); I.new = parse_value(lx, t)
    elif op == 'fence':
        pass
    elif op in ('call', 'invoke'):
        while lx.peek() in FMF or lx.peek() in ('fastcc', 'ccc', 'coldcc'): lx.next()
        skip_attrs(lx)
        I.rty = parse_type(lx, nofn=True); I.variadic = False
        if lx.peek() == '(':     # explicit function type (variadic callee): skip it
            depth = 0
            while True:
                x = lx.next()
                if x == '(': depth += 1
                elif x == ')':
                    depth -= 1
                    if depth == 0: break
                elif x == '...': I.variadic = True
            while lx.peek() == '*': lx.next()
        callee = lx.next()
        if callee == 'bitcast':   # call through a constant bitcast
            lx.expect('('); parse_type(lx); callee = lx.next(); lx.expect('to'); parse_type(lx); lx.expect(')')
        I.callee = callee; I.indirect = callee[0] != '@'
        lx.expect('('); I.args = []
        while not lx.eat(')'):
            t = parse_type(lx)
            if isinstance(t, MetaT):
                while lx.peek() not in (',', ')'): lx.next()
                lx.eat(','); continue
            skip_attrs(lx); I.args.append(parse_value(lx, t)); lx.eat(',')
        I.normal = I.unwind = None
        if op == 'invoke':
            while lx.peek() != 'to': lx.next()
            lx.expect('to'); lx.expect('label'); I.normal = lx.next(); lx.expect('unwind'); lx.expect('label'); I.unwind = lx.next()
    else:
        raise ValueError('opcode ' + op + ' :: ' + text)
    return I

# ---------------------------------------------------------------- module
class Module:
    def __init__(s): s.types = {}; s.globals = {}; s.funcs = {}; s.decls = {}; s.src = None
class Func:
    def __init__(s): s.blocks = []; s.args = []; s.name = None; s.ret = None; s.bmap = {}; s.attrs = ''
    def ninstr(s): return sum(len(b) for _, b in s.blocks)

LINK = ('private', 'internal', 'linkonce_odr', 'weak_odr', 'external', 'dso_local', 'local_unnamed_addr',
        'unnamed_addr', 'hidden', 'available_externally', 'common', 'weak', 'thread_local', 'dso_preemptable',
        'linkonce', 'appending', 'protected', 'fastcc', 'ccc', 'coldcc')

def cname(n):
    n = n.strip('%@"')
    return re.sub(r'[^A-Za-z0-9_]', '_', n)

def parse_module(text, want=None):
    """want: optional predicate on function name; bodies of other functions are skipped (treated as declarations)"""
    m = Module()
    lines = text.split('\n')
    i = 0; N = len(lines)
    while i < N:
        ln = lines[i]
        if ln.startswith('%') and ' = type ' in ln:
            name, rest = ln.split(' = type ', 1)
            m.types[name.strip()] = parse_type(Lex(rest))
        elif ln.startswith('@'):
            mo = re.match(r'(@"[^"]*"|@[-\w.$]+) = (.*)$', ln)
            name, rest = mo.group(1), mo.group(2)
            rest = re.sub(r', (comdat(\(\S+\))?|align \d+|section "[^"]*"|!dbg !\d+)', '', rest)
            lx = Lex(rest)
            ext = False
            while lx.peek() in LINK or lx.peek() == 'thread_local':
                if lx.peek() in ('external', 'available_externally'): ext = True
                lx.next()
                if lx.peek() == '(':   # thread_local(initialexec)
                    while lx.next() != ')': pass
            kind = lx.next()
            if kind in ('alias', 'ifunc'):
                i += 1; continue
            assert kind in ('constant', 'global'), ln[:100]
            ty = parse_type(lx)
            init = None
            if lx.peek() is not None:
                try: init = parse_value(lx, ty)
                except Exception as e: init = None
            m.globals[name] = (ty, init, kind, ext and init is None)
        elif ln.startswith('define '):
            f = Func()
            hdr = ln
            mo = re.search(r'(@"[^"]*"|@[-\w.$]+)\(', hdr)
            f.name = mo.group(1)
            pre = hdr[:mo.start()]
            lxp = Lex(re.sub(r'^define ', '', pre))
            while lxp.peek() in LINK or lxp.peek() in ATTRS: lxp.next()
            skip_attrs(lxp)
            f.ret = parse_type(lxp)
            depth = 0; j = mo.end() - 1; start = j
            while True:
                if hdr[j] == '(': depth += 1
                elif hdr[j] == ')':
                    depth -= 1
                    if depth == 0: break
                j += 1
            argtxt = hdr[start + 1:j]; f.attrs = hdr[j + 1:]
            lx = Lex(argtxt); f.sret = None
            k = 0
            while lx.peek() is not None:
                if lx.peek() == '...': lx.next(); break
                t = parse_type(lx)
                if lx.peek() == 'sret': f.sret = k
                skip_attrs(lx)
                nm = lx.next(); f.args.append((t, nm)); lx.eat(','); k += 1
            i += 1
            body = []
            while lines[i] != '}':
                body.append(lines[i]); i += 1
            if want is not None and not want(f.name):
                m.decls[f.name] = hdr; i += 1; continue
            blocks = []; cur = ('entry', []); blocks.append(cur)
            k = 0
            while k < len(body):
                l = body[k]
                mo2 = re.match(r'^([-\w.$]+|"[^"]*"):', l)
                if mo2:
                    cur = ('%' + mo2.group(1), []); blocks.append(cur)
                elif l.strip() and not l.strip().startswith(';'):
                    s2 = l.strip()
                    while k + 1 < len(body) and (body[k + 1].startswith('          ') or (s2.startswith('switch') and not s2.rstrip().endswith(']'))):
                        k += 1; s2 += ' ' + body[k].strip()
                    cur[1].append(parse_instr(s2))
                k += 1
            f.blocks = blocks; f.bmap = dict(blocks)
            # the implicit entry label is %<number of unnamed values so far>; phis refer to it
            f.entry_alias = None
            m.funcs[f.name] = f
        elif ln.startswith('declare '):
            mo = re.search(r'(@"[^"]*"|@[-\w.$]+)\(', ln)
            m.decls[mo.group(1)] = ln
        i += 1
    return m

def pred_is(frm, p, f):
    """does phi-incoming label p denote block frm?"""
    return p == frm or (frm == 'entry' and p not in f.bmap)

def demangle(names):
    import subprocess
    if not names: return {}
    out = subprocess.run(['c++filt'], input='\n'.join(n.lstrip('@') for n in names), capture_output=True, text=True).stdout.split('\n')
    return dict(zip(names, out))
