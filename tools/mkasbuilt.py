#!/usr/bin/env python3
"""Emit the per-property 'as built' table of DESIGN.md (Part A.3) from the harness modules and the evidence files of the last run"""
import os, sys, json, importlib
V = os.path.dirname(os.path.dirname(os.path.abspath(__file__))); sys.path.insert(0, V)
out = []
for i in range(1, 21):
    pid = 'C%02d' % i
    if not os.path.exists(os.path.join(V, 'harness', pid + '.py')): continue
    hm = importlib.import_module('harness.' + pid)
    M = hm.MANIFEST
    ev = {}
    p = os.path.join(V, 'evidence', pid + '.json')
    if os.path.exists(p): ev = json.load(open(p))
    samples = (ev.get('coverage') or {}).get('samples') or []
    nq = len(samples); wall = ev.get('wall_s')
    out.append('#### %s — engine %s' % (pid, M.get('engine')))
    out.append('')
    out.append('*Decided:* ' + M.get('text', ''))
    out.append('')
    out.append('*Technique:* ' + M.get('technique', ''))
    out.append('')
    out.append('*Outside the claim / trusted:* ' + M.get('note', ''))
    out.append('')
    if samples:
        out.append('*Last %s run:* %d obligations, %s solver queries, wall %.0f s. Obligations: %s.' % (ev.get('tier'), nq, (ev.get('coverage') or {}).get('evaluations'), wall or 0,
                   '; '.join('`%s` (%s, %.0f s)' % (s.get('obligation'), s.get('verdict'), s.get('wall_s') or 0) for s in samples[:60])))
        out.append('')
    out.append('*Stated assumptions and bounds:*')
    for a in getattr(hm, 'ASSUMPTIONS', []): out.append('- ' + a)
    out.append('')
text = '\n'.join(out)
if '--update' in sys.argv:
    p = os.path.join(V, 'DESIGN.md'); d = open(p).read()
    a = d.index('<!-- ASBUILT-BEGIN -->') + len('<!-- ASBUILT-BEGIN -->'); b = d.index('<!-- ASBUILT-END -->')
    open(p, 'w').write(d[:a] + '\n' + text + '\n' + d[b:]); print('DESIGN.md updated (%d lines)' % len(out))
else:
    print(text)
