#!/usr/bin/env python3
"""regenerates MANIFEST.json from the harness modules present (harness/Cxx.py with a MANIFEST dict)"""
import os, sys, json, importlib
V = os.path.dirname(os.path.dirname(os.path.abspath(__file__))); sys.path.insert(0, V)
props = [json.loads(l) for l in open(os.path.join(V, 'properties.jsonl'))]
checks = []; na = []
NA_REASONS = json.load(open(os.path.join(V, 'tools', 'not_applicable.json'))) if os.path.exists(os.path.join(V, 'tools', 'not_applicable.json')) else {}
for p in props:
    pid = p['id']
    if os.path.exists(os.path.join(V, 'harness', pid + '.py')) and pid not in NA_REASONS:
        src = open(os.path.join(V, 'harness', pid + '.py')).read()
        ns = {}
        # MANIFEST dict is a literal at the end of the harness file
        i = src.find('\nMANIFEST = ')
        if i < 0: raise SystemExit('harness %s lacks MANIFEST' % pid)
        exec(src[i:], ns)
        M = ns['MANIFEST']
        checks.append({
            'property_id': pid,
            'quick_cmd': './check %s --tier quick' % pid,
            'thorough_cmd': './check %s --tier thorough' % pid,
            'evidence_file': '/verif/evidence/%s.json' % pid,
            'replay_cmd_template': './check %s --replay {path}' % pid,
            'engine': M.get('engine', 'E1+E2'),
            'level_claimed': {'category': 'model_checking', 'text': M['text'], 'design_ref': 'DESIGN.md §3 ' + pid},
            'level_note': M['note'],
            'technique': M['technique'],
        })
    else:
        na.append({'property_id': pid, 'reason': NA_REASONS.get(pid, 'no registered check yet in this round: the harness for this property is still being built (plan in DESIGN.md §3); nothing is claimed')})
man = {
    'version': 1,
    'setup_cmd': 'cd /verif && ./setup.sh',
    'hooks': {'guard': 'GEOGRAPHICLIB_VERIF', 'enable': 'none needed: checks compile /repo sources through wrapper units in /verif/wrappers with -DGEOGRAPHICLIB_VERIF=1 -fno-access-control; no source hook exists in /repo',
              'baseline_off_cmd': 'cd /repo && cmake -G Ninja -B _build -DCMAKE_BUILD_TYPE=RelWithDebInfo >/dev/null && cmake --build _build >/dev/null && cmake --build _build --target testprograms >/dev/null && ctest --test-dir _build -j8 --timeout 900',
              'source_commits': [], 'add_only': True},
    'engines': [
        {'name': 'E1 cgen+cbmc', 'path': 'vfw/cgen.py', 'serves_properties': sorted({c['property_id'] for c in checks if 'E1' in c['engine']}),
         'kind_free_text': 'clang-14 IR of the real translation units -> generated C -> cbmc 6.11 (bit-precise integers/pointers/strings; FP precise, uninterpreted or NaN-taint)'},
        {'name': 'E2 rsym+z3', 'path': 'vfw/rsym.py', 'serves_properties': sorted({c['property_id'] for c in checks if 'E2' in c['engine']}),
         'kind_free_text': 'symbolic execution of the same IR over z3 reals (exact real meaning of the FP operations), oracles from first principles (vfw/series.py)'},
    ],
    'checks': checks,
    'not_applicable': na,
    'notes': 'All checks are bounded solver verdicts over encodings regenerated from /repo on every run; see DESIGN.md. exit 0 = all obligations discharged; exit 1 = reproduced violation; exit 2 = machinery broken; exit 3 = inconclusive.',
}
json.dump(man, open(os.path.join(V, 'MANIFEST.json'), 'w'), indent=1)
print('MANIFEST: %d checks, %d not_applicable' % (len(checks), len(na)))
