#!/bin/sh
# offline setup: nothing to fetch or build ahead of a check; verify the tools and byte-compile the framework
set -e
cd "$(dirname "$0")"
for t in clang++-14 opt-14 cbmc g++ z3 python3-vt; do command -v $t >/dev/null || { echo "missing tool $t"; exit 1; }; done
python3-vt -c "import z3, sys; sys.exit(0)"
python3-vt -m compileall -q vfw harness tools >/dev/null
echo "setup ok"
