/* C02 harness (E1): the canonical-form bookkeeping of Geodesic::GenInverse (lonsign / swapp / latsign and the restoration of signs and
   end-point order) decided as symmetry of the outputs under reflection in the equator, reflection in a meridian and exchange of the end points.
   FP (main obligations): + and - are one uninterpreted function each (congruence), compare/copysign/fabs/negation exact; * and / exact for
   the factors the bookkeeping uses (0, +-1 and the other powers of two) and otherwise one deterministic uninterpreted function each, odd in each
   argument; sin, cos, sqrt, atan2, hypot, sincosd, sincosde deterministic uninterpreted functions of the bit patterns.
   Environment: InverseStart, Lambda12, Lengths are deterministic uninterpreted functions of their arguments (the numerical core); Lambda12
   reports convergence by its third call (bound on Newton iterations: the bookkeeping before and after the loop does not depend on the count).
   Math::AngDiff and Math::AngRound are uninterpreted functions with the symmetries that the LEMMA obligation proves of the real functions in
   precise IEEE arithmetic (assume-guarantee). */
#ifdef LEMMA
#include "fp_P.h"
#else
#include "fp_G.h"
#endif
#include "cxx.c"
#ifdef __CPROVER__
double __CPROVER_uninterpreted_c2sin(uint64_t); double __CPROVER_uninterpreted_c2cos(uint64_t); double __CPROVER_uninterpreted_c2sqrt(uint64_t);
double __CPROVER_uninterpreted_c2atan2(uint64_t, uint64_t); double __CPROVER_uninterpreted_c2hypot(uint64_t, uint64_t);
double __CPROVER_uninterpreted_c2mul(uint64_t, uint64_t); double __CPROVER_uninterpreted_c2div(uint64_t, uint64_t);
uint64_t __CPROVER_uninterpreted_c2mix(uint64_t, uint64_t); double __CPROVER_uninterpreted_c2out(uint64_t, int);
#endif
#ifndef LEMMA
#undef M_sin
#undef M_cos
#undef M_sqrt
#undef M_atan2
#undef M_hypot
#ifdef __CPROVER__
#define M_sin(s,x) __CPROVER_uninterpreted_c2sin(vf_d2bits(x))
#define M_cos(s,x) __CPROVER_uninterpreted_c2cos(vf_d2bits(x))
#define M_sqrt(s,x) __CPROVER_uninterpreted_c2sqrt(vf_d2bits(x))
#define M_atan2(s,y,x) __CPROVER_uninterpreted_c2atan2(vf_d2bits(y), vf_d2bits(x))
#define M_hypot(s,x,y) __CPROVER_uninterpreted_c2hypot(vf_d2bits(x), vf_d2bits(y))
#else
#define M_sin(s,x) sin(x)
#define M_cos(s,x) cos(x)
#define M_sqrt(s,x) sqrt(x)
#define M_atan2(s,y,x) atan2(y,x)
#define M_hypot(s,x,y) hypot(x,y)
#endif
#endif
static int ispow2(double b) { uint64_t u = vf_d2bits(b); uint64_t e = (u >> 52) & 0x7ff; return (u & ((1ULL << 52) - 1)) == 0 && e >= 1 && e <= 2046; }
static double scale2(double a, double p, int div) {     /* a * 2^k or a / 2^k, exact while the result stays a normal number */
  uint64_t u = vf_d2bits(a), ea = (u >> 52) & 0x7ff, ep = (vf_d2bits(p) >> 52) & 0x7ff; int neg = (int)(vf_d2bits(p) >> 63);
  if (a == 0.0 || ea == 0x7ff) return neg ? -a : a;
  long e = div ? (long)ea - ((long)ep - 1023) : (long)ea + ((long)ep - 1023);
  __CPROVER_assume(ea >= 1 && e >= 1 && e <= 2046);     /* overflow / subnormal results are outside the claim */
  uint64_t r = (u & ~(0x7ffULL << 52)) | ((uint64_t)e << 52);
  return vf_bits2d(neg ? r ^ (1ULL << 63) : r);
}
double vf_muldiv(int site, int isdiv, double a, double b) {
#ifdef __CPROVER__
  if (isnan(a) || isnan(b)) return VF_NAN;
  if (!isdiv) {
    if (a == 1.0) return b; if (b == 1.0) return a; if (a == -1.0) return -b; if (b == -1.0) return -a;
    if (ispow2(a)) return scale2(b, a, 0); if (ispow2(b)) return scale2(a, b, 0);
    if ((a == 0.0 && !isinf(b)) || (b == 0.0 && !isinf(a))) return (signbit(a) != signbit(b)) ? -0.0 : 0.0;
    /* x*y = (-x)*(-y) = -((-x)*y): the function is applied to the magnitudes, the sign is the product of the signs */
    { double r = __CPROVER_uninterpreted_c2mul(vf_d2bits(fabs(a)), vf_d2bits(fabs(b))); __CPROVER_assume(!(vf_d2bits(r) >> 63)); return (signbit(a) != signbit(b)) ? -r : r; }
  }
  if (b == 1.0) return a; if (b == -1.0) return -a;
  if (ispow2(b)) return scale2(a, b, 1);
  { double r = __CPROVER_uninterpreted_c2div(vf_d2bits(fabs(a)), vf_d2bits(fabs(b))); __CPROVER_assume(!(vf_d2bits(r) >> 63)); return (signbit(a) != signbit(b)) ? -r : r; }
#else
  return isdiv ? a / b : a * b;
#endif
}
double F__ZN13GeographicLib4Math3NaNIdEET_v(void) { return VF_NAN; }
#ifdef __CPROVER__
#define MIX(h, d) __CPROVER_uninterpreted_c2mix(h, vf_d2bits(d))
#define OUT(h, k) __CPROVER_uninterpreted_c2out(h, k)
#else
#define MIX(h, d) ((h) * 1000003ULL + vf_d2bits(d))
#define OUT(h, k) ((double)(((h) >> (k)) & 1023) / 1024.0)
#endif
/* void sincosd(x, &s, &c) ; void sincosde(x, t, &s, &c) */
void F__ZN13GeographicLib4Math7sincosdIdEEvT_RS2_S3_(double x, char* s, char* c) { uint64_t h = MIX(11, x); *(double*)s = OUT(h, 0); *(double*)c = OUT(h, 1); }
void F__ZN13GeographicLib4Math8sincosdeIdEEvT_S2_RS2_S3_(double x, double t, char* s, char* c) { uint64_t h = MIX(MIX(12, x), t); *(double*)s = OUT(h, 0); *(double*)c = OUT(h, 1); }
int n_lambda;
/* real InverseStart(sbet1, cbet1, dn1, sbet2, cbet2, dn2, lam12, slam12, clam12, &salp1, &calp1, &salp2, &calp2, &dnm, Ca) const */
double F__ZNK13GeographicLib8Geodesic12InverseStartEdddddddddRdS1_S1_S1_S1_Pd(char* g, double a1, double a2, double a3, double a4, double a5, double a6, double a7, double a8, double a9, char* salp1, char* calp1, char* salp2, char* calp2, char* dnm, char* Ca) {
  uint64_t h = MIX(MIX(MIX(MIX(MIX(MIX(MIX(MIX(MIX(13, a1), a2), a3), a4), a5), a6), a7), a8), a9);
  *(double*)salp1 = OUT(h, 0); *(double*)calp1 = OUT(h, 1); *(double*)salp2 = OUT(h, 2); *(double*)calp2 = OUT(h, 3); *(double*)dnm = OUT(h, 4); return OUT(h, 5);
}
/* real Lambda12(sbet1, cbet1, dn1, sbet2, cbet2, dn2, salp1, calp1, slam120, clam120, &salp2, &calp2, &sig12, &ssig1, &csig1, &ssig2, &csig2, &eps, &domg12, diffp, &dlam12, Ca) const */
double F__ZNK13GeographicLib8Geodesic8Lambda12EddddddddddRdS1_S1_S1_S1_S1_S1_S1_S1_bS1_Pd(char* g, double a1, double a2, double a3, double a4, double a5, double a6, double a7, double a8, double a9, double a10,
    char* salp2, char* calp2, char* sig12, char* ssig1, char* csig1, char* ssig2, char* csig2, char* eps, char* domg12, uint8_t diffp, char* dlam12, char* Ca) {
  uint64_t h = MIX(MIX(MIX(MIX(MIX(MIX(MIX(MIX(MIX(MIX(14, a1), a2), a3), a4), a5), a6), a7), a8), a9), a10);
  *(double*)salp2 = OUT(h, 0); *(double*)calp2 = OUT(h, 1); *(double*)sig12 = OUT(h, 2); *(double*)ssig1 = OUT(h, 3); *(double*)csig1 = OUT(h, 4); *(double*)ssig2 = OUT(h, 5); *(double*)csig2 = OUT(h, 6);
  *(double*)eps = OUT(h, 7); *(double*)domg12 = OUT(h, 8); if (diffp & 1) *(double*)dlam12 = OUT(h, 9);
  n_lambda++;
  return n_lambda >= 3 ? 0.0 : OUT(h, 10);        /* the environment reports convergence by the third evaluation */
}
/* void Lengths(eps, sig12, ssig1, csig1, dn1, ssig2, csig2, dn2, cbet1, cbet2, outmask, &s12b, &m12b, &m0, &M12, &M21, Ca) const */
void F__ZNK13GeographicLib8Geodesic7LengthsEddddddddddjRdS1_S1_S1_S1_Pd(char* g, double a1, double a2, double a3, double a4, double a5, double a6, double a7, double a8, double a9, double a10, uint32_t mask,
    char* s12b, char* m12b, char* m0, char* M12, char* M21, char* Ca) {
  uint64_t h = MIX(MIX(MIX(MIX(MIX(MIX(MIX(MIX(MIX(MIX(15, a1), a2), a3), a4), a5), a6), a7), a8), a9), a10);
  *(double*)s12b = OUT(h, 0); *(double*)m12b = OUT(h, 1); *(double*)m0 = OUT(h, 2); *(double*)M12 = OUT(h, 3); *(double*)M21 = OUT(h, 4);
}
double F__ZNK13GeographicLib13GeodesicExact10GenInverseEddddjRdS1_S1_S1_S1_S1_S1_S1_S1_(char* g, double a, double b, double c, double d, uint32_t m, char* p1, char* p2, char* p3, char* p4, char* p5, char* p6, char* p7, char* p8, char* p9) {
  __CPROVER_assert(0, "the exact solver is not entered (harness sets _exact = false)"); return 0; }
#ifndef LEMMA
#undef F_MUL
#undef F_DIV
#define F_MUL(s,a,b) vf_muldiv(s,0,a,b)
#define F_DIV(s,a,b) vf_muldiv(s,1,a,b)
/* Math::AngDiff and Math::AngRound: deterministic uninterpreted functions with exactly the symmetries that the LEMMA obligation proves of
   the real functions: AngDiff(-x,-y) = -AngDiff(x,y), AngDiff(y,x) = -AngDiff(x,y) (value and error term), AngRound(-x) = -AngRound(x) */
static double neg(double x) { return vf_bits2d(vf_d2bits(x) ^ (1ULL << 63)); }
static int lt2(double a1, double a2, double b1, double b2) { return vf_d2bits(a1) < vf_d2bits(b1) || (vf_d2bits(a1) == vf_d2bits(b1) && vf_d2bits(a2) < vf_d2bits(b2)); }
double F__ZN13GeographicLib4Math8AngRoundIdEET_S2_(double x) {
  if (isnan(x)) return x;
  double r = OUT(MIX(16, fabs(x)), 0); __CPROVER_assume(!(vf_d2bits(r) >> 63));
  return signbit(x) ? neg(r) : r;
}
double F__ZN13GeographicLib4Math7AngDiffIdEET_S2_S2_RS2_(double x, double y, char* e) {
  /* canonical representative of {(x,y), (-x,-y), (y,x), (-y,-x)}, whose results carry the signs +, -, -, + */
  double cx = x, cy = y; int sg = 1;
  if (lt2(neg(x), neg(y), cx, cy)) { cx = neg(x); cy = neg(y); sg = -1; }
  if (lt2(y, x, cx, cy)) { cx = y; cy = x; sg = -1; }
  if (lt2(neg(y), neg(x), cx, cy)) { cx = neg(y); cy = neg(x); sg = 1; }
  uint64_t h = MIX(MIX(17, cx), cy); double d = OUT(h, 0), t = OUT(h, 1);
  __CPROVER_assume(!isnan(d) && !isnan(t));
  *(double*)e = sg < 0 ? neg(t) : t; return sg < 0 ? neg(d) : d;
}
#endif
#include "gen.c"
#define OFF(x) (*(long*)&G_vf_off_Geodesic_##x)
static int sameb(double a, double b) { return vf_d2bits(a) == vf_d2bits(b); }
static int negb(double a, double b) { return vf_d2bits(a) == (vf_d2bits(b) ^ (1ULL << 63)); }     /* a == -b bit for bit */

VT_class_GeographicLib__Geodesic in_g; VT_class_GeographicLib__Geodesic nondet_geod(void);
double in_lat1, in_lon1, in_lat2, in_lon2; unsigned in_mask;
typedef struct { double a12, s12, salp1, calp1, salp2, calp2, m12, M12, M21, S12; } res_t;
static res_t run(char* g, double lat1, double lon1, double lat2, double lon2) {
  res_t r; r.s12 = r.salp1 = r.calp1 = r.salp2 = r.calp2 = r.m12 = r.M12 = r.M21 = r.S12 = 0.0; n_lambda = 0;
  r.a12 = F__ZNK13GeographicLib8Geodesic10GenInverseEddddjRdS1_S1_S1_S1_S1_S1_S1_S1_(g, lat1, lon1, lat2, lon2, in_mask, (char*)&r.s12, (char*)&r.salp1, (char*)&r.calp1, (char*)&r.salp2, (char*)&r.calp2, (char*)&r.m12, (char*)&r.M12, (char*)&r.M21, (char*)&r.S12);
  return r;
}
#ifndef WHICH
#define WHICH 1
#endif
#ifndef LEMMA
void harness_sym(void) {
#ifdef __CPROVER__
  in_g = nondet_geod();
#endif
  char* g = (char*)&in_g;
  *(unsigned char*)(g + OFF(_exact)) = 0;
  /* the constants every constructor sets (constructor invariant) */
  *(unsigned*)(g + OFF(maxit2_)) = 83u; *(double*)(g + OFF(tiny_)) = 0x1p-511; *(double*)(g + OFF(tol0_)) = 0x1p-52; *(double*)(g + OFF(tol1_)) = 200 * 0x1p-52;
  *(double*)(g + OFF(tol2_)) = 0x1p-26; *(double*)(g + OFF(tolb_)) = 0x1p-52; *(double*)(g + OFF(xthresh_)) = 1000 * 0x1p-26;
  IN(in_lat1, nondet_double()); IN(in_lon1, nondet_double()); IN(in_lat2, nondet_double()); IN(in_lon2, nondet_double());
  __CPROVER_assume(in_lat1 >= -90.0 && in_lat1 <= 90.0 && in_lat2 >= -90.0 && in_lat2 <= 90.0 && !isnan(in_lon1) && !isinf(in_lon1) && !isnan(in_lon2) && !isinf(in_lon2));
  in_mask = 0x0400u | 0x0001u | 0x0200u | 0x1000u | 0x0004u | 0x2000u;       /* DISTANCE | AZIMUTH | REDUCEDLENGTH | GEODESICSCALE (capability bits included) */
  vf_exc = 0;
  res_t A = run(g, in_lat1, in_lon1, in_lat2, in_lon2), B;
#if WHICH == 1      /* reflection in the equator */
  B = run(g, -in_lat1, in_lon1, -in_lat2, in_lon2);
  __CPROVER_assert(vf_exc == 0, "no exception");
  __CPROVER_assert(sameb(A.a12, B.a12) && sameb(A.s12, B.s12) && sameb(A.m12, B.m12) && sameb(A.M12, B.M12) && sameb(A.M21, B.M21), "equator reflection: arc, distance, reduced length and scales unchanged");
  __CPROVER_assert(sameb(A.salp1, B.salp1) && sameb(A.salp2, B.salp2), "equator reflection: east components of the azimuths unchanged");
  __CPROVER_assert(negb(A.calp1, B.calp1) && negb(A.calp2, B.calp2), "equator reflection: north components of the azimuths change sign");
#elif WHICH == 2    /* reflection in a meridian (shortest path unique: |lon12| != 180, != 0) */
  B = run(g, in_lat1, -in_lon1, in_lat2, -in_lon2);
  { double e, d = F__ZN13GeographicLib4Math7AngDiffIdEET_S2_S2_RS2_(in_lon1, in_lon2, (char*)&e); __CPROVER_assume(d != 180.0 && d != -180.0); }
  __CPROVER_assert(vf_exc == 0, "no exception");
  __CPROVER_assert(sameb(A.a12, B.a12) && sameb(A.s12, B.s12) && sameb(A.m12, B.m12) && sameb(A.M12, B.M12) && sameb(A.M21, B.M21), "meridian reflection: arc, distance, reduced length and scales unchanged");
  __CPROVER_assert(sameb(A.calp1, B.calp1) && sameb(A.calp2, B.calp2), "meridian reflection: north components of the azimuths unchanged");
  __CPROVER_assert(negb(A.salp1, B.salp1) && negb(A.salp2, B.salp2), "meridian reflection: east components of the azimuths change sign");
#else               /* exchange of the end points (|lat1| != |lat2| so that the canonical order is determined; |lon12| != 180) */
  B = run(g, in_lat2, in_lon2, in_lat1, in_lon1);
  { double e, d = F__ZN13GeographicLib4Math7AngDiffIdEET_S2_S2_RS2_(in_lon1, in_lon2, (char*)&e); __CPROVER_assume(d != 180.0 && d != -180.0);
    double l1 = F__ZN13GeographicLib4Math8AngRoundIdEET_S2_(in_lat1), l2 = F__ZN13GeographicLib4Math8AngRoundIdEET_S2_(in_lat2); __CPROVER_assume(fabs(l1) != fabs(l2)); }
  __CPROVER_assert(vf_exc == 0, "no exception");
  __CPROVER_assert(sameb(A.a12, B.a12) && sameb(A.s12, B.s12) && sameb(A.m12, B.m12), "exchange: arc, distance and reduced length unchanged");
  __CPROVER_assert(sameb(A.M12, B.M21) && sameb(A.M21, B.M12), "exchange: the two geodesic scales change places");
  __CPROVER_assert(negb(A.salp1, B.salp2) && negb(A.calp1, B.calp2) && negb(A.salp2, B.salp1) && negb(A.calp2, B.calp1), "exchange: the geodesic is traversed backwards (azimuths exchanged and reversed)");
#endif
  VF_WITNESS("end of harness_sym");
}
#endif
#ifdef LEMMA
/* lemmas about the real Math::AngDiff / Math::AngRound (precise IEEE arithmetic; remainder by its odd, deterministic contract) */
double in_x, in_y;
void harness_lemma(void) {
  IN(in_x, nondet_double()); IN(in_y, nondet_double());
  __CPROVER_assume(!isnan(in_x) && !isinf(in_x) && !isnan(in_y) && !isinf(in_y));
  double e1, e2, e3;
  double d1 = F__ZN13GeographicLib4Math7AngDiffIdEET_S2_S2_RS2_(in_x, in_y, (char*)&e1);
  double d2 = F__ZN13GeographicLib4Math7AngDiffIdEET_S2_S2_RS2_(-in_x, -in_y, (char*)&e2);
  double d3 = F__ZN13GeographicLib4Math7AngDiffIdEET_S2_S2_RS2_(in_y, in_x, (char*)&e3);
  if (d1 != 180.0 && d1 != -180.0 && d1 != 0.0) {      /* a zero difference takes its sign from y - x, which is +0 for x == y in either orientation */
    __CPROVER_assert(negb(d1, d2) && e1 == -e2, "AngDiff(-x,-y) = -AngDiff(x,y), value bit for bit and error term numerically (difference not 0 or +-180)");
    __CPROVER_assert(negb(d1, d3) && e1 == -e3, "AngDiff(y,x) = -AngDiff(x,y), value bit for bit and error term numerically (difference not 0 or +-180)");
  }
  __CPROVER_assert(negb(F__ZN13GeographicLib4Math8AngRoundIdEET_S2_(in_x), F__ZN13GeographicLib4Math8AngRoundIdEET_S2_(-in_x)), "AngRound(-x) = -AngRound(x) bit for bit");
  VF_WITNESS("end of harness_lemma");
}
#endif
