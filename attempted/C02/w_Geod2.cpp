// wrapper unit: the real src/Math.cpp + src/Geodesic.cpp (GenInverse bookkeeping with AngDiff/AngRound in the same module) + layout constants
#include "Math.cpp"
#include "Geodesic.cpp"
#include "vf.h"
VF_SIZE(Geodesic)
VF_OFF(Geodesic, _exact) VF_OFF(Geodesic, _f) VF_OFF(Geodesic, _f1) VF_OFF(Geodesic, _a)
VF_OFF(Geodesic, maxit2_) VF_OFF(Geodesic, tiny_) VF_OFF(Geodesic, tol0_) VF_OFF(Geodesic, tol1_) VF_OFF(Geodesic, tol2_) VF_OFF(Geodesic, tolb_) VF_OFF(Geodesic, xthresh_)
using namespace GeographicLib;
// replay helper on the real code: the inner GenInverse overload (sines and cosines of the azimuths)
VF_API double vf_geninverse(double a, double f, double lat1, double lon1, double lat2, double lon2, double* out) {
  Geodesic g(a, f); return g.GenInverse(lat1, lon1, lat2, lon2, Geodesic::DISTANCE | Geodesic::AZIMUTH | Geodesic::REDUCEDLENGTH | Geodesic::GEODESICSCALE, out[0], out[1], out[2], out[3], out[4], out[5], out[6], out[7], out[8]);
}
