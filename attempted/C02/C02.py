#!/usr/bin/env python3
"""C02 — inverse geodesic problem: canonical-form bookkeeping of Geodesic::GenInverse decided as output symmetries (E1)"""
import os
from vfw.run import Ob
from vfw import e1, build
from harness import common as H

W = 'w_Geod2'; HC = os.path.join(build.VERIF, 'harness', 'C02', 'c02.c')
GI = '@_ZNK13GeographicLib8Geodesic10GenInverseEddddjRdS1_S1_S1_S1_S1_S1_S1_S1_'
STOP = ['@_ZN13GeographicLib4Math7sincosdIdEEvT_RS2_S3_', '@_ZN13GeographicLib4Math8sincosdeIdEEvT_S2_RS2_S3_', '@_ZNK13GeographicLib8Geodesic12InverseStartEdddddddddRdS1_S1_S1_S1_Pd',
        '@_ZNK13GeographicLib8Geodesic8Lambda12EddddddddddRdS1_S1_S1_S1_S1_S1_S1_S1_bS1_Pd', '@_ZNK13GeographicLib8Geodesic7LengthsEddddddddddjRdS1_S1_S1_S1_Pd',
        '@_ZNK13GeographicLib13GeodesicExact10GenInverseEddddjRdS1_S1_S1_S1_S1_S1_S1_S1_', '@_ZN13GeographicLib4Math3NaNIdEET_v']
ASSUMPTIONS = [
    'only the bookkeeping of Geodesic::GenInverse (series solver) is decided: longitude difference and its sign, AngRound/LatFix, end-point swap, hemisphere flip, the meridional/equatorial/short-line/Newton case selection as far as it is a function of the canonical inputs, and the restoration of signs and order in the outputs',
    'the numerical core is an environment: InverseStart, Lambda12, Lengths, sincosd, sincosde, sin, cos, sqrt, atan2, hypot and general products/quotients are deterministic uninterpreted functions of their arguments\' bit patterns (products/quotients odd in each argument, exact for factors 0, +-1, 2, 1/2); so that the returned geodesic joins the points, is shortest, converges, or has a12 in [0,180] is NOT decided (needs the values)',
    'Newton iterations <= 3 (the Lambda12 stub reports convergence by its third call); all ellipsoids (every ellipsoid-dependent Geodesic member is arbitrary; the tolerance constants have their constructor values, _exact = false); outmask = DISTANCE|AZIMUTH|REDUCEDLENGTH|GEODESICSCALE (the AREA branch is outside the claim)',
    'ties are excluded as the property allows (equally short geodesics): |lon12| = 180 for the meridian reflection and the exchange, |lat1| = |lat2| for the exchange',
    'GeodesicExact::GenInverse has the same bookkeeping text but is a separate function: not encoded; periodicity in longitude is C04/C16 (AngDiff/AngNormalize)',
]
TYPES = ['%"class.GeographicLib::Geodesic"']
def prepare(ctx): H.ir_module(ctx, W)

AD = '@_ZN13GeographicLib4Math7AngDiffIdEET_S2_S2_RS2_'; AR = '@_ZN13GeographicLib4Math8AngRoundIdEET_S2_'
def ob_lemma(ctx):
    m = H.ir_module(ctx, W)
    return e1.cbmc_check(ctx, m, 'C02', [AD, AR], HC, function='harness_lemma', unwind=5, defines=['LEMMA', 'VF_MEM_MAX=16'], timeout=900, stop=['@_ZN13GeographicLib4Math3NaNIdEET_v'], export_types=TYPES,
                          extra_globals=['@vf_off_Geodesic_' + k for k in ('_exact', 'maxit2_', 'tiny_', 'tol0_', 'tol1_', 'tol2_', 'tolb_', 'xthresh_')])
ob_lemma.cbmc_timeout = 900
def _cb(which, timeout=1200):
    def run(ctx):
        m = H.ir_module(ctx, W)
        return e1.cbmc_check(ctx, m, 'C02', [GI], HC, function='harness_sym', unwind=5, unwindset={'vf_memmove.0': 10, 'vf_memmove.1': 10, 'vf_memmove.2': 66, 'vf_memmove.3': 66, 'vf_memset.0': 66}, defines=['WHICH=%d' % which, 'VF_MEM_MAX=64'], timeout=timeout, stop=STOP + [AD, AR],
                              export_types=TYPES, extra_globals=['@vf_off_Geodesic_' + k for k in ('_exact', 'maxit2_', 'tiny_', 'tol0_', 'tol1_', 'tol2_', 'tolb_', 'xthresh_')])
    run.cbmc_timeout = timeout
    return run

def obligations(ctx):
    B = {'Newton iterations': '<= 3', 'inputs': 'all latitudes in [-90,90], all finite longitudes', 'ellipsoid': 'arbitrary object image'}
    obs = [Ob('L1.AngDiff-AngRound-symmetry', ob_lemma, '[BIT-P]', 'E1 cgen+cbmc', 'Math::AngDiff is odd under negation of both arguments and antisymmetric under their exchange (value and error term; differences of exactly 0 or +-180, whose sign is a convention, excluded), Math::AngRound is odd: the facts the symmetry obligations assume of these two callees', timeout=930, bounds={'x, y': 'all finite doubles'})]
    if not os.environ.get('VERIF_EXPERIMENTAL'): return obs
    # not registered: no verdict within 40 min / 29 GB (see DESIGN.md, C02)
    return obs + [Ob('S1.equator-reflection', _cb(1), '[ABS-G] core opaque', 'E1 cgen+cbmc', 'negating both latitudes leaves s12, a12, m12, M12, M21 and the east components of both azimuths bit-identical and flips the north components', timeout=1230, mem_gb=24, bounds=B),
            Ob('S2.meridian-reflection', _cb(2), '[ABS-G] core opaque', 'E1 cgen+cbmc', 'negating both longitudes leaves s12, a12, m12, M12, M21 and the north components bit-identical and flips the east components', timeout=1230, mem_gb=24, bounds=B),
            Ob('S3.exchange', _cb(3), '[ABS-G] core opaque', 'E1 cgen+cbmc', 'exchanging the end points returns the same geodesic traversed backwards: s12, a12, m12 identical, M12 and M21 exchanged, azimuths exchanged and reversed', timeout=1230, mem_gb=24, bounds=B)]

def replay(rp):
    return e1.replay(rp, W)

MANIFEST = {
    'engine': 'E1',
    'technique': 'bounded model checking (cbmc) of C generated from the clang IR of Geodesic::GenInverse, run twice on reflected/exchanged inputs with the numerical core as deterministic uninterpreted functions; the solver decides bit-level symmetry of the outputs',
    'text': 'Bounded solver verdicts on the real code: the canonical-form bookkeeping of the series inverse solver (lonsign, swapp, latsign and their restoration) makes the outputs transform exactly as the symmetries of the problem demand under equator reflection, meridian reflection and end-point exchange.',
    'note': 'Numerical core opaque: that the geodesic joins the points, is shortest, or agrees with the exact solver is not decided; Newton iterations <= 3; AREA branch and GeodesicExact not encoded. Trusted: clang-14, vfw/cgen, cbmc 6.11.',
}
