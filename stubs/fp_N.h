/* FP mode N (NaN taint): an arithmetic result is NaN if an operand is NaN and an arbitrary double (possibly NaN/inf) otherwise;
   comparisons, negation, fabs, copysign, floor, min/max and int<->float conversions stay exact.  Sound for accept/reject,
   throw-frame, write-set and memory-safety obligations whose index arithmetic is integer. */
#ifndef VF_FP_N_H
#define VF_FP_N_H
#ifndef VF_KEEP_CONV_CHECK
#define VF_NO_CONV_CHECK 1
#endif
#include "vf_rt.h"
#include "fp_common.h"
#define VF_FPMODE "N"
#define VF_DECL_FOP(kind, site)
static inline double vf_nt1(double a) { double r = nondet_double(); return isnan(a) ? VF_NAN : r; }
static inline double vf_nt2(double a, double b) { double r = nondet_double(); return (isnan(a) || isnan(b)) ? VF_NAN : r; }
static inline double vf_nt3(double a, double b, double c) { double r = nondet_double(); return (isnan(a) || isnan(b) || isnan(c)) ? VF_NAN : r; }
#define F_ADD(s,a,b) vf_nt2(a,b)
#define F_SUB(s,a,b) vf_nt2(a,b)
#define F_MUL(s,a,b) vf_nt2(a,b)
#define F_DIV(s,a,b) vf_nt2(a,b)
#define F_ADDF(s,a,b) ((float)vf_nt2(a,b))
#define F_SUBF(s,a,b) ((float)vf_nt2(a,b))
#define F_MULF(s,a,b) ((float)vf_nt2(a,b))
#define F_DIVF(s,a,b) ((float)vf_nt2(a,b))
#define F_ADDL(s,a,b) ((long double)vf_nt2((double)(a),(double)(b)))
#define F_SUBL(s,a,b) ((long double)vf_nt2((double)(a),(double)(b)))
#define F_MULL(s,a,b) ((long double)vf_nt2((double)(a),(double)(b)))
#define F_DIVL(s,a,b) ((long double)vf_nt2((double)(a),(double)(b)))
static inline double vf_n_remquo(double x, double y, char* q) { *(int*)q = nondet_int(); return vf_nt2(x, y); }
#define M_remainder(s,x,y) vf_nt2(x,y)
#define M_remquo(s,x,y,q) vf_n_remquo(x,y,q)
#define M_sin(s,x) vf_nt1(x)
#define M_cos(s,x) vf_nt1(x)
#define M_sqrt(s,x) vf_nt1(x)
#define M_atan(s,x) vf_nt1(x)
#define M_atan2(s,y,x) vf_nt2(y,x)
#define M_hypot(s,x,y) vf_nt2(x,y)
#define M_pow(s,x,y) vf_nt2(x,y)
#define M_tan(s,x) vf_nt1(x)
#define M_exp(s,x) vf_nt1(x)
#define M_log(s,x) vf_nt1(x)
#define M_sinh(s,x) vf_nt1(x)
#define M_cosh(s,x) vf_nt1(x)
#define M_tanh(s,x) vf_nt1(x)
#define M_asinh(s,x) vf_nt1(x)
#define M_atanh(s,x) vf_nt1(x)
#define M_asin(s,x) vf_nt1(x)
#define M_acos(s,x) vf_nt1(x)
#define M_log1p(s,x) vf_nt1(x)
#define M_expm1(s,x) vf_nt1(x)
#define M_cbrt(s,x) vf_nt1(x)
#define M_fmod(s,x,y) vf_nt2(x,y)
#define M_fma(s,a,b,c) vf_nt3(a,b,c)
#define M_fmuladd(s,a,b,c) vf_nt3(a,b,c)
#endif
