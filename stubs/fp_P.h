/* FP mode P (precise): IEEE operators on double; non-exact libm members by contract */
#ifndef VF_FP_P_H
#define VF_FP_P_H
#include "vf_rt.h"
#include "fp_common.h"
#define VF_FPMODE "P"
#define VF_DECL_FOP(kind, site)
#define F_ADD(s,a,b) ((a)+(b))
#define F_SUB(s,a,b) ((a)-(b))
#ifdef VF_OPAQUE_MULDIV
/* hybrid mode: add/sub/compare/floor/conversions precise, multiplication and division delegated to a harness hook
   (arbitrary result constrained and recorded by the harness) */
double vf_muldiv(int site, int isdiv, double a, double b);
#define F_MUL(s,a,b) vf_muldiv(s, 0, a, b)
#define F_DIV(s,a,b) vf_muldiv(s, 1, a, b)
#else
#define F_MUL(s,a,b) ((a)*(b))
#define F_DIV(s,a,b) ((a)/(b))
#endif
#define F_ADDF(s,a,b) ((a)+(b))
#define F_SUBF(s,a,b) ((a)-(b))
#define F_MULF(s,a,b) ((a)*(b))
#define F_DIVF(s,a,b) ((a)/(b))
#define F_ADDL(s,a,b) ((a)+(b))
#define F_SUBL(s,a,b) ((a)-(b))
#define F_MULL(s,a,b) ((a)*(b))
#define F_DIVL(s,a,b) ((a)/(b))
#ifdef __CPROVER__
/* contracts (documented IEEE/C99 Annex F facts only) */
double __CPROVER_uninterpreted_remainder(double, double);
static inline double vf_c_remainder(double x, double y) {
  if (isnan(x) || isnan(y) || isinf(x) || y == 0.0) return VF_NAN;
  if (isinf(y)) return x;
  double ay = __builtin_fabs(y), ax = __builtin_fabs(x);
  if (ax <= ay / 2) return x;                                  /* n = 0 (ties to even) */
  if (ax < ay + ay / 2) { double q = x > 0 ? x - ay : x + ay; return q == 0.0 ? vf_copysign(0.0, x) : q; }   /* n = +-1: exact by Sterbenz */
  if (ax == ay + ay / 2) return x > 0 ? -(ay / 2) : ay / 2;    /* tie at 1.5 y: n = +-2 (even) */
  /* deterministic (a function of |x| and |y|) and odd in x, otherwise arbitrary within [-y/2, y/2] */
  double r = __CPROVER_uninterpreted_remainder(ax, ay);
  __CPROVER_assume(!isnan(r) && r >= -ay / 2 && r <= ay / 2);
  if (x < 0) r = -r;
  if (r == 0.0) r = vf_copysign(0.0, x);                       /* zero result has the sign of x */
  return r;
}
static inline double vf_c_remquo(double x, double y, char* q) {
  double r = vf_c_remainder(x, y);
  int qq = nondet_int();
  if (!isnan(r) && __builtin_fabs(x) <= __builtin_fabs(y) / 2) qq = 0;
  *(int*)q = qq; return r;
}
static inline double vf_c_unary(double x) { double r = nondet_double(); if (isnan(x)) return VF_NAN; return r; }
static inline double vf_c_sin(double x) { if (isnan(x) || isinf(x)) return VF_NAN; if (x == 0.0) return x; double r = nondet_double(); __CPROVER_assume(r >= -1.0 && r <= 1.0); return r; }
static inline double vf_c_cos(double x) { if (isnan(x) || isinf(x)) return VF_NAN; if (x == 0.0) return 1.0; double r = nondet_double(); __CPROVER_assume(r >= -1.0 && r <= 1.0); return r; }
static inline double vf_c_sqrt(double x) { if (isnan(x) || x < 0) return VF_NAN; if (x == 0.0 || isinf(x)) return x; if (x == 1.0) return 1.0; double r = nondet_double(); __CPROVER_assume(r > 0.0 && !isinf(r)); return r; }
static inline double vf_c_atan(double x) { if (isnan(x)) return VF_NAN; if (x == 0.0) return x; double r = nondet_double(); __CPROVER_assume(r >= -0x1.921fb54442d18p+0 && r <= 0x1.921fb54442d18p+0 && (x > 0) == (r > 0) && r != 0.0); return r; }
static inline double vf_c_atan2(double y, double x) {
  if (isnan(x) || isnan(y)) return VF_NAN;
  const double pi = 0x1.921fb54442d18p+1;
  if (y == 0.0) { if (x > 0 || (x == 0.0 && !(vf_d2bits(x) >> 63))) return y; return vf_copysign(pi, y); }
  if (x == 0.0) return vf_copysign(pi / 2, y);
  if (isinf(x) && !isinf(y)) return x > 0 ? vf_copysign(0.0, y) : vf_copysign(pi, y);
  if (isinf(y) && !isinf(x)) return vf_copysign(pi / 2, y);
  if (isinf(x) && isinf(y)) return vf_copysign(x > 0 ? pi / 4 : 3 * pi / 4, y);
  if (x == y) return 0x1.921fb54442d18p-1;                     /* atan2(t,t), t>0 finite: correctly rounded pi/4 in glibc */
  if (x == -y && x > 0) return -0x1.921fb54442d18p-1;
  double r = nondet_double();
  __CPROVER_assume(r >= -pi && r <= pi && r != 0.0 && (y > 0) == (r > 0));
  if (x > 0) __CPROVER_assume(r > -pi / 2 - 1e-300 && r <= pi / 2 && r >= -pi / 2); else __CPROVER_assume(r >= pi / 2 || r <= -pi / 2);
  if (x > 0 && y <= x && y >= -x) __CPROVER_assume(r <= 0x1.921fb54442d18p-1 && r >= -0x1.921fb54442d18p-1);   /* first octants: |atan2| <= pi/4 (monotone) */
  return r;
}
static inline double vf_c_hypot(double x, double y) { if (isinf(x) || isinf(y)) return VF_INF; if (isnan(x) || isnan(y)) return VF_NAN; double r = nondet_double(); __CPROVER_assume(r >= 0.0); __CPROVER_assume(r >= __builtin_fabs(x) && r >= __builtin_fabs(y)); return r; }
static inline double vf_c_binary(double x, double y) { if (isnan(x) || isnan(y)) return VF_NAN; return nondet_double(); }
static inline double vf_c_pow(double x, double y) { if (y == 0.0 || x == 1.0) return 1.0;
  if (x == 10.0 && y >= 1.0 && y <= 15.0 && y == (double)(int)y) {   /* exactly representable results are returned exactly (glibc pow is correctly rounded there) */
    static const double p10[16] = {1, 10, 100, 1e3, 1e4, 1e5, 1e6, 1e7, 1e8, 1e9, 1e10, 1e11, 1e12, 1e13, 1e14, 1e15}; return p10[(int)y]; } if (isnan(x) || isnan(y)) return VF_NAN; double r = nondet_double(); if (x > 0) __CPROVER_assume(r >= 0.0); return r; }
#define M_remainder(s,x,y) vf_c_remainder(x,y)
#define M_remquo(s,x,y,q) vf_c_remquo(x,y,q)
#define M_sin(s,x) vf_c_sin(x)
#define M_cos(s,x) vf_c_cos(x)
#define M_sqrt(s,x) vf_c_sqrt(x)
#define M_atan(s,x) vf_c_atan(x)
#define M_atan2(s,y,x) vf_c_atan2(y,x)
#define M_hypot(s,x,y) vf_c_hypot(x,y)
#define M_pow(s,x,y) vf_c_pow(x,y)
#define M_tan(s,x) vf_c_unary(x)
#define M_exp(s,x) vf_c_unary(x)
#define M_log(s,x) vf_c_unary(x)
#define M_sinh(s,x) vf_c_unary(x)
#define M_cosh(s,x) vf_c_unary(x)
#define M_tanh(s,x) vf_c_unary(x)
#define M_asinh(s,x) vf_c_unary(x)
#define M_atanh(s,x) vf_c_unary(x)
#define M_asin(s,x) vf_c_unary(x)
#define M_acos(s,x) vf_c_unary(x)
#define M_log1p(s,x) vf_c_unary(x)
#define M_expm1(s,x) vf_c_unary(x)
#define M_cbrt(s,x) vf_c_unary(x)
static inline double vf_c_fmod(double x, double y) {
  if (isnan(x) || isnan(y) || isinf(x) || y == 0.0) return VF_NAN;
  if (isinf(y)) return x;
  double ay = __builtin_fabs(y), ax = __builtin_fabs(x);
  if (ax < ay) return x;                                        /* |x| < |y|: fmod is the identity */
  if (ax < ay + ay) { double q = x > 0 ? x - ay : x + ay; return q == 0.0 ? vf_copysign(0.0, x) : q; }   /* one subtraction, exact */
  double r = nondet_double(); __CPROVER_assume(!isnan(r) && r > -ay && r < ay && (r == 0.0 || (r > 0) == (x > 0)));
  return r == 0.0 ? vf_copysign(0.0, x) : r;
}
#define M_fmod(s,x,y) vf_c_fmod(x,y)
#define M_fma(s,a,b,c) ((a)*(b)+(c))
#define M_fmuladd(s,a,b,c) ((a)*(b)+(c))
#else
#define M_remainder(s,x,y) remainder(x,y)
#define M_remquo(s,x,y,q) remquo(x,y,(int*)(q))
#define M_sin(s,x) sin(x)
#define M_cos(s,x) cos(x)
#define M_sqrt(s,x) sqrt(x)
#define M_atan(s,x) atan(x)
#define M_atan2(s,y,x) atan2(y,x)
#define M_hypot(s,x,y) hypot(x,y)
#define M_pow(s,x,y) pow(x,y)
#define M_tan(s,x) tan(x)
#define M_exp(s,x) exp(x)
#define M_log(s,x) log(x)
#define M_sinh(s,x) sinh(x)
#define M_cosh(s,x) cosh(x)
#define M_tanh(s,x) tanh(x)
#define M_asinh(s,x) asinh(x)
#define M_atanh(s,x) atanh(x)
#define M_asin(s,x) asin(x)
#define M_acos(s,x) acos(x)
#define M_log1p(s,x) log1p(x)
#define M_expm1(s,x) expm1(x)
#define M_cbrt(s,x) cbrt(x)
#define M_fmod(s,x,y) fmod(x,y)
#define M_fma(s,a,b,c) fma(a,b,c)
#define M_fmuladd(s,a,b,c) ((a)*(b)+(c))
#endif
#endif
