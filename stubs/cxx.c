/* libstdc++ / libc environment for the generated C, modelled at the ABI:
   std::string = { char* p; size_t n; union { char buf[16]; size_t cap; } }  (32 bytes, SSO)
   Included by harness files after the generated code's prototypes are visible is NOT required: these are plain definitions
   with the F_<mangled> names cgen uses.  Every loop is bounded by VF_STR_MAX (harness bound; unwinding assertions check it). */
#ifndef VF_CXX_C
#define VF_CXX_C
#include "vf_rt.h"
#ifndef VF_STR_MAX
#define VF_STR_MAX 32
#endif
typedef struct { char* p; uint64_t n; union { char buf[16]; uint64_t cap; } u; } vf_string;   /* harnesses declare strings with this type */
#define S_P(s) (*(char**)(s))
#define S_N(s) (*(uint64_t*)((char*)(s) + 8))
#define S_BUF(s) ((char*)(s) + 16)
#define S_CAP(s) (*(uint64_t*)((char*)(s) + 16))
#define S_LOCAL(s) (S_P(s) == S_BUF(s))

static char* vf_alloc(uint64_t n) {
  char* p = (char*)malloc(n);
#ifdef __CPROVER__
  __CPROVER_assume(p != 0);        /* allocation failure is outside the claims (stated) */
#endif
  return p;
}
char* F__Znwm(uint64_t n) { return vf_alloc(n); }
char* F__Znam(uint64_t n) { return vf_alloc(n); }
void F__ZdlPv(char* p) { free(p); }
void F__ZdaPv(char* p) { free(p); }
void F__ZdlPvm(char* p, uint64_t n) { free(p); }

/* string helpers */
static void vf_str_init(char* s, const char* src, uint64_t n) {
  VF_ASSERT(n <= VF_STR_MAX, "string length within harness bound VF_STR_MAX");
  if (n > 15) { S_P(s) = vf_alloc(n + 1); S_CAP(s) = n; } else S_P(s) = S_BUF(s);
  char* d = S_P(s);
  for (uint64_t i = 0; i < VF_STR_MAX; i++) if (i < n) d[i] = src[i];
  S_N(s) = n; d[n] = 0;
}
static uint64_t vf_strlen(const char* p) { uint64_t n = 0; while (n < VF_STR_MAX + 64 && p[n]) n++; return n; }
static void vf_str_set(char* s, const char* src, uint64_t n) {
  /* replace contents (src may alias the old contents: copy first).  Loops run over concrete indices with guards, so that
     no array is indexed symbolically by these stubs */
  char tmp[VF_STR_MAX + 1];
  VF_ASSERT(n <= VF_STR_MAX, "string length within harness bound VF_STR_MAX");
  for (uint64_t i = 0; i < VF_STR_MAX; i++) if (i < n) tmp[i] = src[i];
  uint64_t cap = S_LOCAL(s) ? 15 : S_CAP(s);
  if (n > cap) { char* np = vf_alloc(n + 1); if (!S_LOCAL(s)) free(S_P(s)); S_P(s) = np; S_CAP(s) = n; }
  char* d = S_P(s);
  for (uint64_t i = 0; i < VF_STR_MAX; i++) if (i < n) d[i] = tmp[i];
  S_N(s) = n; d[n] = 0;
}
/* basic_string(const char*, const allocator&) */
void F__ZNSt7__cxx1112basic_stringIcSt11char_traitsIcESaIcEEC1EPKcRKS3_(char* s, char* cstr, char* alloc) {
  if (!cstr) { vf_exc = 2; return; }
  vf_str_init(s, cstr, vf_strlen(cstr));
}
void F__ZNSt7__cxx1112basic_stringIcSt11char_traitsIcESaIcEEC2EPKcRKS3_(char* s, char* cstr, char* alloc) { F__ZNSt7__cxx1112basic_stringIcSt11char_traitsIcESaIcEEC1EPKcRKS3_(s, cstr, alloc); }
/* _M_create(size_type& capacity, size_type old_capacity) */
char* F__ZNSt7__cxx1112basic_stringIcSt11char_traitsIcESaIcEE9_M_createERmm(char* s, char* capp, uint64_t old) {
  uint64_t cap = *(uint64_t*)capp;
  if (cap > 0x3fffffffffffffffULL) { vf_exc = 5; return 0; }
  if (cap > old && cap < 2 * old) { cap = 2 * old; *(uint64_t*)capp = cap; }
  VF_ASSERT(cap <= 4 * VF_STR_MAX + 64, "string capacity within harness bound");
  return vf_alloc(cap + 1);
}
/* _M_construct(size_type n, char c) */
void F__ZNSt7__cxx1112basic_stringIcSt11char_traitsIcESaIcEE12_M_constructEmc(char* s, uint64_t n, uint8_t c) {
  VF_ASSERT(n <= VF_STR_MAX, "string length within harness bound VF_STR_MAX");
  if (n > 15) { S_P(s) = vf_alloc(n + 1); S_CAP(s) = n; }
  for (uint64_t i = 0; i < n && i < VF_STR_MAX; i++) S_P(s)[i] = (char)c;
  S_N(s) = n; S_P(s)[n] = 0;
}
/* _M_assign(const basic_string&) */
void F__ZNSt7__cxx1112basic_stringIcSt11char_traitsIcESaIcEE9_M_assignERKS4_(char* s, char* o) {
  if (s != o) vf_str_set(s, S_P(o), S_N(o));
}
/* _M_append(const char*, size_type) -> *this */
char* F__ZNSt7__cxx1112basic_stringIcSt11char_traitsIcESaIcEE9_M_appendEPKcm(char* s, char* p, uint64_t n) {
  char tmp[VF_STR_MAX + 1]; uint64_t n0 = S_N(s); char* d = S_P(s);
  VF_ASSERT(n0 <= VF_STR_MAX && n <= VF_STR_MAX && n0 + n <= VF_STR_MAX, "string length within harness bound VF_STR_MAX");
  for (uint64_t i = 0; i < VF_STR_MAX; i++) { if (i < n0) tmp[i] = d[i]; else if (i < n0 + n) tmp[i] = p[i - n0]; }
  vf_str_set(s, tmp, n0 + n); return s;
}
/* _M_replace(pos, len1, s, len2) -> *this */
char* F__ZNSt7__cxx1112basic_stringIcSt11char_traitsIcESaIcEE10_M_replaceEmmPKcm(char* s, uint64_t pos, uint64_t len1, char* p, uint64_t len2) {
  char tmp[VF_STR_MAX + 1]; uint64_t n0 = S_N(s); char* d = S_P(s);
  VF_ASSERT(n0 <= VF_STR_MAX && len2 <= VF_STR_MAX, "string length within harness bound VF_STR_MAX");
  VF_ASSERT(pos <= n0 && len1 <= n0 - pos, "_M_replace: range inside string");
  uint64_t k = n0 - len1 + len2;
  VF_ASSERT(k <= VF_STR_MAX, "string length within harness bound VF_STR_MAX");
  for (uint64_t i = 0; i < VF_STR_MAX; i++) { if (i < pos) tmp[i] = d[i]; else if (i < pos + len2) tmp[i] = p[i - pos]; else if (i < k) tmp[i] = d[i - len2 + len1]; }
  vf_str_set(s, tmp, k); return s;
}
/* _M_replace_aux(pos, n1, n2, c) */
char* F__ZNSt7__cxx1112basic_stringIcSt11char_traitsIcESaIcEE14_M_replace_auxEmmmc(char* s, uint64_t pos, uint64_t n1, uint64_t n2, uint8_t c) {
  char tmp[VF_STR_MAX + 1];
  VF_ASSERT(n2 <= VF_STR_MAX, "string length within harness bound VF_STR_MAX");
  for (uint64_t i = 0; i < VF_STR_MAX; i++) tmp[i] = (char)c;
  return F__ZNSt7__cxx1112basic_stringIcSt11char_traitsIcESaIcEE10_M_replaceEmmPKcm(s, pos, n1, tmp, n2);
}
/* _M_erase(pos, n) */
void F__ZNSt7__cxx1112basic_stringIcSt11char_traitsIcESaIcEE8_M_eraseEmm(char* s, uint64_t pos, uint64_t n) {
  F__ZNSt7__cxx1112basic_stringIcSt11char_traitsIcESaIcEE10_M_replaceEmmPKcm(s, pos, n, (char*)"", 0);
}
/* reserve(n) */
void F__ZNSt7__cxx1112basic_stringIcSt11char_traitsIcESaIcEE7reserveEm(char* s, uint64_t n) {
  uint64_t cap = S_LOCAL(s) ? 15 : S_CAP(s);
  if (n <= cap) return;
  VF_ASSERT(n <= 4 * VF_STR_MAX + 64, "string capacity within harness bound");
  char* np = vf_alloc(n + 1); uint64_t n0 = S_N(s); char* d0 = S_P(s);
  for (uint64_t i = 0; i <= VF_STR_MAX; i++) if (i <= n0) np[i] = d0[i];
  if (!S_LOCAL(s)) free(S_P(s));
  S_P(s) = np; S_CAP(s) = n;
}
/* resize(n, c) */
void F__ZNSt7__cxx1112basic_stringIcSt11char_traitsIcESaIcEE6resizeEmc(char* s, uint64_t n, uint8_t c) {
  uint64_t n0 = S_N(s);
  if (n <= n0) { S_N(s) = n; S_P(s)[n] = 0; return; }
  VF_ASSERT(n <= VF_STR_MAX, "string length within harness bound VF_STR_MAX");
  uint64_t cap = S_LOCAL(s) ? 15 : S_CAP(s);
  if (n > cap) F__ZNSt7__cxx1112basic_stringIcSt11char_traitsIcESaIcEE7reserveEm(s, n);
  char* d = S_P(s);
  for (uint64_t i = 0; i < VF_STR_MAX; i++) if (i >= n0 && i < n) d[i] = (char)c;
  S_N(s) = n; d[n] = 0;
}
/* substr(pos, n) const  (sret) */
void F__ZNKSt7__cxx1112basic_stringIcSt11char_traitsIcESaIcEE6substrEmm(char* ret, char* s, uint64_t pos, uint64_t n) {
  uint64_t n0 = S_N(s);
  if (pos > n0) { vf_exc = 4; return; }   /* std::out_of_range */
  uint64_t k = n0 - pos; if (n < k) k = n;
  S_P(ret) = S_BUF(ret);
  vf_str_init(ret, S_P(s) + pos, k);
}
/* find(char, pos) const */
uint64_t F__ZNKSt7__cxx1112basic_stringIcSt11char_traitsIcESaIcEE4findEcm(char* s, uint8_t c, uint64_t pos) {
  uint64_t n0 = S_N(s);
  for (uint64_t i = pos; i < n0 && i < VF_STR_MAX; i++) if (S_P(s)[i] == (char)c) return i;
  return (uint64_t)-1;
}
/* find(const char*, pos, n) const */
uint64_t F__ZNKSt7__cxx1112basic_stringIcSt11char_traitsIcESaIcEE4findEPKcmm(char* s, char* p, uint64_t pos, uint64_t n) {
  uint64_t n0 = S_N(s);
  if (n == 0) return pos <= n0 ? pos : (uint64_t)-1;
  if (n > n0) return (uint64_t)-1;
  for (uint64_t i = pos; i + n <= n0 && i < VF_STR_MAX; i++) {
    int ok = 1;
    for (uint64_t j = 0; j < n && j < VF_STR_MAX; j++) if (S_P(s)[i + j] != p[j]) { ok = 0; break; }
    if (ok) return i;
  }
  return (uint64_t)-1;
}
static int vf_inset(char c, const char* p, uint64_t n) { for (uint64_t j = 0; j < n && j < VF_STR_MAX; j++) if (p[j] == c) return 1; return 0; }
uint64_t F__ZNKSt7__cxx1112basic_stringIcSt11char_traitsIcESaIcEE13find_first_ofEPKcmm(char* s, char* p, uint64_t pos, uint64_t n) {
  uint64_t n0 = S_N(s);
  for (uint64_t i = pos; n && i < n0 && i < VF_STR_MAX; i++) if (vf_inset(S_P(s)[i], p, n)) return i;
  return (uint64_t)-1;
}
uint64_t F__ZNKSt7__cxx1112basic_stringIcSt11char_traitsIcESaIcEE17find_first_not_ofEPKcmm(char* s, char* p, uint64_t pos, uint64_t n) {
  uint64_t n0 = S_N(s);
  for (uint64_t i = pos; i < n0 && i < VF_STR_MAX; i++) if (!vf_inset(S_P(s)[i], p, n)) return i;
  return (uint64_t)-1;
}
uint64_t F__ZNKSt7__cxx1112basic_stringIcSt11char_traitsIcESaIcEE16find_last_not_ofEPKcmm(char* s, char* p, uint64_t pos, uint64_t n) {
  uint64_t n0 = S_N(s);
  if (!n0) return (uint64_t)-1;
  uint64_t i = n0 - 1; if (pos < i) i = pos;
  for (uint64_t k = 0; k <= VF_STR_MAX; k++) { if (!vf_inset(S_P(s)[i], p, n)) return i; if (i == 0) break; i--; }
  return (uint64_t)-1;
}
uint64_t F__ZNKSt7__cxx1112basic_stringIcSt11char_traitsIcESaIcEE16find_last_not_ofEcm(char* s, uint8_t c, uint64_t pos) {
  char cc = (char)c; return F__ZNKSt7__cxx1112basic_stringIcSt11char_traitsIcESaIcEE16find_last_not_ofEPKcmm(s, &cc, pos, 1);
}
/* compare(const char*) const */
uint32_t F__ZNKSt7__cxx1112basic_stringIcSt11char_traitsIcESaIcEE7compareEPKc(char* s, char* p) {
  uint64_t n0 = S_N(s), n1 = vf_strlen(p); uint64_t k = n0 < n1 ? n0 : n1;
  for (uint64_t i = 0; i < k && i < VF_STR_MAX; i++) {
    unsigned char a = (unsigned char)S_P(s)[i], b = (unsigned char)p[i];
    if (a != b) return (uint32_t)(a < b ? -1 : 1);
  }
  if (n0 == n1) return 0;
  return (uint32_t)(n0 < n1 ? -1 : 1);
}
/* operator=(basic_string&&) */
char* F__ZNSt7__cxx1112basic_stringIcSt11char_traitsIcESaIcEEaSEOS4_(char* s, char* o) {
  if (s == o) return s;
  vf_str_set(s, S_P(o), S_N(o)); S_N(o) = 0; S_P(o)[0] = 0; return s;
}
/* operator+=(const char*), operator+=(const string&) */
char* F__ZNSt7__cxx1112basic_stringIcSt11char_traitsIcESaIcEEpLEPKc(char* s, char* p) { return F__ZNSt7__cxx1112basic_stringIcSt11char_traitsIcESaIcEE9_M_appendEPKcm(s, p, vf_strlen(p)); }
char* F__ZNSt7__cxx1112basic_stringIcSt11char_traitsIcESaIcEEpLERKS4_(char* s, char* o) { return F__ZNSt7__cxx1112basic_stringIcSt11char_traitsIcESaIcEE9_M_appendEPKcm(s, S_P(o), S_N(o)); }

/* throw helpers of libstdc++ (noreturn in reality: set the flag, the caller returns) */
void F__ZSt20__throw_length_errorPKc(char* m) { vf_exc = 5; }
void F__ZSt24__throw_out_of_range_fmtPKcz(char* m, ...) { vf_exc = 4; }
void F__ZSt19__throw_logic_errorPKc(char* m) { vf_exc = 2; }
void F__ZSt17__throw_bad_allocv(void) { vf_exc = 3; }
void F__ZSt28__throw_bad_array_new_lengthv(void) { vf_exc = 3; }
void F__ZSt16__throw_bad_castv(void) { vf_exc = 2; }
void F__ZSt9terminatev(void) { VF_ASSERT(0, "std::terminate reached"); }

/* C++ ABI */
char* F___cxa_begin_catch(char* p) { return vf_excobj; }
void F___cxa_end_catch(void) { }
void F___cxa_rethrow(void) { vf_exc = vf_caught ? vf_caught : 2; }
void F___cxa_free_exception(char* p) { }
char* F___cxa_allocate_exception(uint64_t n) { return vf_excobj; }
void F___cxa_throw(char* obj, char* tinfo, char* dtor) { vf_exc = 2; }
int vf_guard_depth = 0;     /* > 0 while a C++11 thread-safe static initialisation is in progress */
uint32_t F___cxa_guard_acquire(char* g) { if (*(uint8_t*)g == 0) { vf_guard_depth++; return 1; } return 0; }
void F___cxa_guard_release(char* g) { *(uint8_t*)g = 1; vf_guard_depth--; }
void F___cxa_guard_abort(char* g) { }
uint32_t F___cxa_atexit(char* f, char* a, char* d) { return 0; }

/* libc, C locale */
uint64_t F_strlen(char* p) { return vf_strlen(p); }
char* F_strchr(char* p, uint32_t c) {
  for (uint64_t i = 0; i < VF_STR_MAX + 64; i++) { if (p[i] == (char)c) return p + i; if (!p[i]) return 0; }
  return 0;
}
char* F_memchr(char* p, uint32_t c, uint64_t n) {
  for (uint64_t i = 0; i < n && i < VF_STR_MAX + 64; i++) if (p[i] == (char)c) return p + i;
  return 0;
}
uint32_t F_toupper(uint32_t c) { return (c >= 'a' && c <= 'z') ? c - 32 : c; }
uint32_t F_tolower(uint32_t c) { return (c >= 'A' && c <= 'Z') ? c + 32 : c; }
uint32_t F_isspace(uint32_t c) { return c == ' ' || (c >= 9 && c <= 13); }
uint32_t F_isdigit(uint32_t c) { return c >= '0' && c <= '9'; }
uint32_t F_isalpha(uint32_t c) { return (c >= 'a' && c <= 'z') || (c >= 'A' && c <= 'Z'); }
#endif
