/* comparisons and exact operations shared by all FP modes (IEEE-exact facts) */
#ifndef VF_FP_COMMON_H
#define VF_FP_COMMON_H
#define F_OEQ(a,b) ((a)==(b))
#define F_OGT(a,b) ((a)>(b))
#define F_OGE(a,b) ((a)>=(b))
#define F_OLT(a,b) ((a)<(b))
#define F_OLE(a,b) ((a)<=(b))
#define F_ONE(a,b) ((a)<(b)||(a)>(b))
#define F_ORD(a,b) (!isnan(a)&&!isnan(b))
#define F_UNO(a,b) (isnan(a)||isnan(b))
#define F_UEQ(a,b) (!((a)<(b)||(a)>(b)))
#define F_UGT(a,b) (!((a)<=(b)))
#define F_UGE(a,b) (!((a)<(b)))
#define F_ULT(a,b) (!((a)>=(b)))
#define F_ULE(a,b) (!((a)>(b)))
#define F_UNE(a,b) ((a)!=(b))
/* exact libm members */
#define M_fabs(s,x) __builtin_fabs(x)
#define M_fabsf(s,x) __builtin_fabsf(x)
#define M_fabsl(s,x) __builtin_fabsl(x)
static inline double vf_copysign(double x, double y) { return vf_bits2d((vf_d2bits(x) & 0x7fffffffffffffffULL) | (vf_d2bits(y) & 0x8000000000000000ULL)); }
static inline float vf_copysignf(float x, float y) { return vf_bits2f((vf_f2bits(x) & 0x7fffffffU) | (vf_f2bits(y) & 0x80000000U)); }
#define M_copysign(s,x,y) vf_copysign(x,y)
#define M_copysignf(s,x,y) vf_copysignf(x,y)
#define M_copysignl(s,x,y) ((long double)vf_copysign((double)(x),(double)(y)))
static inline double vf_fmax(double a, double b) { return isnan(a) ? b : isnan(b) ? a : (a >= b ? a : b); }
static inline double vf_fmin(double a, double b) { return isnan(a) ? b : isnan(b) ? a : (a <= b ? a : b); }
#define M_maxnum(s,x,y) vf_fmax(x,y)
#define M_minnum(s,x,y) vf_fmin(x,y)
#define M_fmax(s,x,y) vf_fmax(x,y)
#define M_fmin(s,x,y) vf_fmin(x,y)
#define M_maxnumf(s,x,y) ((float)vf_fmax(x,y))
#define M_minnumf(s,x,y) ((float)vf_fmin(x,y))
#define M_maxnuml(s,x,y) ((long double)vf_fmax((double)(x),(double)(y)))
#define M_minnuml(s,x,y) ((long double)vf_fmin((double)(x),(double)(y)))
#ifdef __CPROVER__
static inline double vf_floor(double x) {
  /* exact floor: |x| >= 2^52 (or non-finite) is already integral; otherwise via 64-bit integer truncation */
  if (!(__builtin_fabs(x) < 0x1p52)) return x;
  long long i = (long long)x; double d = (double)i;
  if (d > x) d -= 1.0;
  if (d == 0.0) return vf_copysign(0.0, x);
  return d;
}
#else
static inline double vf_floor(double x) { return floor(x); }
#endif
#if defined(VF_U_CONV) && defined(__CPROVER__)
double __CPROVER_uninterpreted_floor(double);
#define M_floor(s,x) __CPROVER_uninterpreted_floor(x)
#define M_ceil(s,x) (-__CPROVER_uninterpreted_floor(-(x)))
#else
#define M_floor(s,x) vf_floor(x)
#define M_ceil(s,x) (-vf_floor(-(x)))
#endif
static inline double vf_ldexp(double x, int n) {
#ifdef __CPROVER__
  /* exact when x and the result are normal numbers: add n to the biased exponent */
  if (x == 0.0 || isnan(x) || isinf(x)) return x;
  uint64_t u = vf_d2bits(x); int e = (int)((u >> 52) & 0x7ff);
  if (e != 0 && e + n > 0 && e + n < 0x7ff && n > -2100 && n < 2100) return vf_bits2d((u & ~(0x7ffULL << 52)) | ((uint64_t)(e + n) << 52));
  { double r = nondet_double(); __CPROVER_assume((x > 0) == (r >= 0) || r == 0); return r; }
#else
  return ldexp(x, n);
#endif
}
#define M_ldexp(s,x,n) vf_ldexp(x,(int)(n))
#endif
