/* FP mode G (global uninterpreted): add/sub/mul/div are one uninterpreted function each (congruence only, no rewrites);
   comparisons and negation exact.  Decides "performs exactly this operation sequence" by congruence. */
#ifndef VF_FP_G_H
#define VF_FP_G_H
#include "vf_rt.h"
#include "fp_common.h"
#define VF_FPMODE "G"
#define VF_DECL_FOP(kind, site)
#ifdef __CPROVER__
double __CPROVER_uninterpreted_gadd(double, double); double __CPROVER_uninterpreted_gsub(double, double);
double __CPROVER_uninterpreted_gmul(double, double); double __CPROVER_uninterpreted_gdiv(double, double);
/* addition and multiplication are commutative in IEEE arithmetic: operands are ordered before the application */
static inline double vf_gadd(double a, double b) { return vf_d2bits(a) <= vf_d2bits(b) ? __CPROVER_uninterpreted_gadd(a, b) : __CPROVER_uninterpreted_gadd(b, a); }
static inline double vf_gmul(double a, double b) { return vf_d2bits(a) <= vf_d2bits(b) ? __CPROVER_uninterpreted_gmul(a, b) : __CPROVER_uninterpreted_gmul(b, a); }
#define F_ADD(s,a,b) vf_gadd(a,b)
#define F_SUB(s,a,b) __CPROVER_uninterpreted_gsub(a,b)
#define F_MUL(s,a,b) vf_gmul(a,b)
#define F_DIV(s,a,b) __CPROVER_uninterpreted_gdiv(a,b)
#else
#define F_ADD(s,a,b) ((a)+(b))
#define F_SUB(s,a,b) ((a)-(b))
#define F_MUL(s,a,b) ((a)*(b))
#define F_DIV(s,a,b) ((a)/(b))
#endif
#endif
