/* FP mode G (global uninterpreted): add/sub/mul/div are one uninterpreted function each (congruence only, no rewrites);
   comparisons and negation exact.  Decides "performs exactly this operation sequence" by congruence. */
#ifndef VF_FP_G_H
#define VF_FP_G_H
#include "vf_rt.h"
#include "fp_common.h"
#define VF_FPMODE "G"
#define VF_DECL_FOP(kind, site)
#ifdef __CPROVER__
double __CPROVER_uninterpreted_gadd(double, double); double __CPROVER_uninterpreted_gsub(double, double);
double __CPROVER_uninterpreted_gmul(double, double); double __CPROVER_uninterpreted_gdiv(double, double);
/* addition and multiplication are commutative in IEEE arithmetic: operands are ordered before the application */
static inline double vf_gadd(double a, double b) { return vf_d2bits(a) <= vf_d2bits(b) ? __CPROVER_uninterpreted_gadd(a, b) : __CPROVER_uninterpreted_gadd(b, a); }
static inline double vf_gmul(double a, double b) { return vf_d2bits(a) <= vf_d2bits(b) ? __CPROVER_uninterpreted_gmul(a, b) : __CPROVER_uninterpreted_gmul(b, a); }
#define F_ADD(s,a,b) vf_gadd(a,b)
#define F_SUB(s,a,b) __CPROVER_uninterpreted_gsub(a,b)
#define F_MUL(s,a,b) vf_gmul(a,b)
#define F_DIV(s,a,b) __CPROVER_uninterpreted_gdiv(a,b)
#else
#define F_ADD(s,a,b) ((a)+(b))
#define F_SUB(s,a,b) ((a)-(b))
#define F_MUL(s,a,b) ((a)*(b))
#define F_DIV(s,a,b) ((a)/(b))
#endif
#ifdef __CPROVER__
double __CPROVER_uninterpreted_gremainder(uint64_t, uint64_t); double __CPROVER_uninterpreted_gsqrt(uint64_t); double __CPROVER_uninterpreted_gatan2(uint64_t, uint64_t);
double __CPROVER_uninterpreted_gsin(uint64_t); double __CPROVER_uninterpreted_gcos(uint64_t); double __CPROVER_uninterpreted_ghypot(uint64_t, uint64_t);
#define M_remainder(s,x,y) __CPROVER_uninterpreted_gremainder(vf_d2bits(x), vf_d2bits(y))
#define M_sqrt(s,x) __CPROVER_uninterpreted_gsqrt(vf_d2bits(x))
#define M_atan2(s,y,x) __CPROVER_uninterpreted_gatan2(vf_d2bits(y), vf_d2bits(x))
#define M_sin(s,x) __CPROVER_uninterpreted_gsin(vf_d2bits(x))
#define M_cos(s,x) __CPROVER_uninterpreted_gcos(vf_d2bits(x))
#define M_hypot(s,x,y) __CPROVER_uninterpreted_ghypot(vf_d2bits(x), vf_d2bits(y))
#define M_fma(s,a,b,c) F_ADD(s, F_MUL(s,a,b), c)
#define M_fmuladd(s,a,b,c) F_ADD(s, F_MUL(s,a,b), c)
#else
#define M_remainder(s,x,y) remainder(x,y)
#define M_sqrt(s,x) sqrt(x)
#define M_atan2(s,y,x) atan2(y,x)
#define M_sin(s,x) sin(x)
#define M_cos(s,x) cos(x)
#define M_hypot(s,x,y) hypot(x,y)
#define M_fma(s,a,b,c) fma(a,b,c)
#define M_fmuladd(s,a,b,c) ((a)*(b)+(c))
#endif
#endif
