// wrapper unit: the real src/GeodesicExact.cpp + layout constants and a native entry point
#include "GeodesicExact.cpp"
#include "vf.h"
VF_SIZE(GeodesicExact)
VF_OFF(GeodesicExact, maxit2_) VF_OFF(GeodesicExact, tiny_) VF_OFF(GeodesicExact, tol0_) VF_OFF(GeodesicExact, tol1_) VF_OFF(GeodesicExact, tol2_) VF_OFF(GeodesicExact, tolb_) VF_OFF(GeodesicExact, xthresh_)
VF_OFF(GeodesicExact, _a) VF_OFF(GeodesicExact, _f) VF_OFF(GeodesicExact, _f1) VF_OFF(GeodesicExact, _e2) VF_OFF(GeodesicExact, _ep2) VF_OFF(GeodesicExact, _n) VF_OFF(GeodesicExact, _b) VF_OFF(GeodesicExact, _c2) VF_OFF(GeodesicExact, _etol2) VF_OFF(GeodesicExact, _nC4)
using namespace GeographicLib;
VF_API double vf_geninverse_exact(double a, double f, double lat1, double lon1, double lat2, double lon2, double* out) {
  GeodesicExact g(a, f); return g.GenInverse(lat1, lon1, lat2, lon2, GeodesicExact::DISTANCE | GeodesicExact::AZIMUTH | GeodesicExact::REDUCEDLENGTH | GeodesicExact::GEODESICSCALE, out[0], out[1], out[2], out[3], out[4], out[5], out[6], out[7], out[8]);
}
VF_API double vf_geninverse_exact_area(double a, double f, double lat1, double lon1, double lat2, double lon2, double* out) {
  GeodesicExact g(a, f); return g.GenInverse(lat1, lon1, lat2, lon2, GeodesicExact::DISTANCE | GeodesicExact::AZIMUTH | GeodesicExact::REDUCEDLENGTH | GeodesicExact::GEODESICSCALE | GeodesicExact::AREA, out[0], out[1], out[2], out[3], out[4], out[5], out[6], out[7], out[8]);
}
