// wrapper unit: the real src/MagneticModel.cpp (model assembly: epoch selection, interpolation) + layout constants
#include "MagneticModel.cpp"
#include "vf.h"
VF_SIZE(MagneticModel) VF_SIZE(SphericalHarmonic) VF_SIZE(MagneticCircle)
VF_OFF(MagneticModel, _t0) VF_OFF(MagneticModel, _dt0) VF_OFF(MagneticModel, _a) VF_OFF(MagneticModel, _nNmodels) VF_OFF(MagneticModel, _nNconstants) VF_OFF(MagneticModel, _harm) VF_OFF(MagneticModel, _earth)
VF_OFF(SphericalHarmonic, _c) VF_OFF(SphericalHarmonic, _a) VF_OFF(SphericalHarmonic, _norm)
VF_OFF(MagneticCircle, _t1) VF_OFF(MagneticCircle, _dt0) VF_OFF(MagneticCircle, _interpolate) VF_OFF(MagneticCircle, _constterm) VF_OFF(MagneticCircle, _circ0) VF_OFF(MagneticCircle, _circ1) VF_OFF(MagneticCircle, _circ2) VF_OFF(MagneticCircle, _t)
VF_SIZE(CircularEngine)
#include <GeographicLib/MagneticCircle.hpp>
#include <fstream>
#include <vector>
#include <cstdint>
// replay helper: write a synthetic 3-epoch degree-2 Schmidt model into dir, then compare direct evaluation and Circle with the field implied
// by the coefficients (linear interpolation between epochs, secular-variation set after the last epoch); returns the largest deviation in nT
static const int N = 2, nmodels = 3; static const double a = 6371200, t0 = 2000, dt0 = 5;
static void vf_mag_write(const std::string& dir, std::vector<std::vector<double> >& G, std::vector<std::vector<double> >& Hc) {
  using namespace GeographicLib;
  { std::ofstream m((dir + "/synth.wmm").c_str());
    m << "WMMF-1\nName synth\nDescription synthetic\nReleaseDate 2020-01-01\nRadius " << a << "\nNumModels " << nmodels << "\nEpoch " << t0 << "\nDeltaEpoch " << dt0
      << "\nMinTime 1995\nMaxTime 2020\nMinHeight -10000\nMaxHeight 600000\nID SYNTH-VF\nNormalization schmidt\nByteOrder little\nType linear\n"; }
  G.assign(nmodels + 1, std::vector<double>()); Hc.assign(nmodels + 1, std::vector<double>());
  { std::ofstream c((dir + "/synth.wmm.cof").c_str(), std::ios::binary); c.write("SYNTH-VF", 8);
    unsigned s = 12345u;
    for (int i = 0; i <= nmodels; ++i) {
      int32_t nm[2] = {N, N}; c.write(reinterpret_cast<char*>(nm), 8);
      int cs = (N + 1) * (N + 2) / 2, ss = cs - (N + 1); G[i].resize(cs); Hc[i].resize(ss);
      double amp = i < nmodels ? 30000 : 80;
      for (int k = 0; k < cs; ++k) { s = s * 1103515245u + 12345u; G[i][k] = amp * (double((s >> 8) & 0xffff) / 32768.0 - 1); }
      for (int k = 0; k < ss; ++k) { s = s * 1103515245u + 12345u; Hc[i][k] = amp * (double((s >> 8) & 0xffff) / 32768.0 - 1); }
      G[i][0] = 0;
      c.write(reinterpret_cast<char*>(&G[i][0]), cs * 8); c.write(reinterpret_cast<char*>(&Hc[i][0]), ss * 8);
    } }
}
// evaluate the synthetic model (direct and on a circle) at an arbitrary time: used to replay time-index conversions under UBSan
VF_API double vf_mag_time(const char* dirc, double t) {
  using namespace GeographicLib; std::string dir(dirc);
  std::vector<std::vector<double> > G(nmodels + 1), Hc(nmodels + 1); vf_mag_write(dir, G, Hc);
  double r = 0;
  try { MagneticModel mag("synth", dir); double b[6]; mag(t, 10, 20, 0, b[0], b[1], b[2], b[3], b[4], b[5]); MagneticCircle c = mag.Circle(t, 10, 0); double d[3]; c(20, d[0], d[1], d[2]); r = b[0] + d[0]; }
  catch (const std::exception&) { r = -1; }
  std::remove((dir + "/synth.wmm").c_str()); std::remove((dir + "/synth.wmm.cof").c_str());
  return r;
}
VF_API double vf_mag_check(const char* dirc) {
  using namespace GeographicLib; std::string dir(dirc);
  std::vector<std::vector<double> > G(nmodels + 1), Hc(nmodels + 1); vf_mag_write(dir, G, Hc);
  double dev = 0;
  try {
    MagneticModel mag("synth", dir); const Geocentric& earth = Geocentric::WGS84();
    std::vector<SphericalHarmonic> harm;
    for (int i = 0; i <= nmodels; ++i) harm.push_back(SphericalHarmonic(G[i], Hc[i], N, a, SphericalHarmonic::SCHMIDT));
    const double times[] = {1997.5, 2000, 2003.25, 2007, 2010, 2012.5, 2019}, lats[] = {-63, 12.5}, lons[] = {-140, 77.5};
    for (unsigned it = 0; it < 7; ++it) for (int il = 0; il < 2; ++il) {
      double t = times[it], lat = lats[il], h = 3000; MagneticCircle circ = mag.Circle(t, lat, h);
      for (int jl = 0; jl < 2; ++jl) {
        double lon = lons[jl], b[6], c[6]; mag(t, lat, lon, h, b[0], b[1], b[2], b[3], b[4], b[5]); circ(lon, c[0], c[1], c[2], c[3], c[4], c[5]);
        int n = int(std::floor((t - t0) / dt0)); n = n < 0 ? 0 : (n > nmodels - 1 ? nmodels - 1 : n);
        double X, Y, Z; std::vector<double> M(9); earth.Forward(lat, lon, h, X, Y, Z, M);
        double A[3], B[3], R[3], Rt[3]; harm[n](X, Y, Z, A[0], A[1], A[2]); harm[n + 1](X, Y, Z, B[0], B[1], B[2]);
        for (int j = 0; j < 3; ++j) { double rate = n + 1 < nmodels ? (B[j] - A[j]) / dt0 : B[j]; R[j] = -a * (A[j] + (t - t0 - n * dt0) * rate); Rt[j] = -a * rate; }
        for (int j = 0; j < 3; ++j) {
          double e = M[j] * R[0] + M[j+3] * R[1] + M[j+6] * R[2], et = M[j] * Rt[0] + M[j+3] * Rt[1] + M[j+6] * Rt[2];
          dev = std::fmax(dev, std::fabs(b[j] - e)); dev = std::fmax(dev, std::fabs(c[j] - e)); dev = std::fmax(dev, std::fabs(b[j+3] - et)); dev = std::fmax(dev, std::fabs(c[j+3] - et));
        }
      } }
  } catch (const std::exception&) { dev = 1e300; }
  std::remove((dir + "/synth.wmm").c_str()); std::remove((dir + "/synth.wmm.cof").c_str());
  return dev;
}
