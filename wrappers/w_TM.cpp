// wrapper unit: the real src/TransverseMercator.cpp + layout constants and native entry points
#include "TransverseMercator.cpp"
#include "vf.h"
VF_SIZE(TransverseMercator)
VF_OFF(TransverseMercator, _a) VF_OFF(TransverseMercator, _f) VF_OFF(TransverseMercator, _k0) VF_OFF(TransverseMercator, _e2) VF_OFF(TransverseMercator, _es)
VF_OFF(TransverseMercator, _e2m) VF_OFF(TransverseMercator, _c) VF_OFF(TransverseMercator, _n) VF_OFF(TransverseMercator, _a1) VF_OFF(TransverseMercator, _b1)
VF_OFF(TransverseMercator, _alp) VF_OFF(TransverseMercator, _bet) VF_OFF(TransverseMercator, _exact)
using namespace GeographicLib;
VF_API void vf_tmcoef(double n, double* alp, double* bet, double* b1) {
  TransverseMercator tm(1, 2*n/(1+n), 1);
  for (int l = 0; l <= TransverseMercator::maxpow_; ++l) { alp[l] = tm._alp[l]; bet[l] = tm._bet[l]; }
  *b1 = tm._b1;
}
VF_API double vf_tm_alp(double n, int l) { TransverseMercator tm(1, 2*n/(1+n), 1); return tm._alp[l]; }
VF_API double vf_tm_bet(double n, int l) { TransverseMercator tm(1, 2*n/(1+n), 1); return tm._bet[l]; }
VF_API double vf_tm_b1(double n) { TransverseMercator tm(1, 2*n/(1+n), 1); return tm._b1; }
VF_API void vf_tm_reverse(double lon0, double x, double y, double* out) { TransverseMercator::UTM().Reverse(lon0, x, y, out[0], out[1], out[2], out[3]); }
