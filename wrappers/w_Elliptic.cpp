// wrapper unit: the real src/EllipticFunction.cpp + layout constants + native entry points
#include "EllipticFunction.cpp"
#include "vf.h"
VF_SIZE(EllipticFunction)
VF_OFF(EllipticFunction, _k2) VF_OFF(EllipticFunction, _kp2) VF_OFF(EllipticFunction, _alpha2) VF_OFF(EllipticFunction, _alphap2) VF_OFF(EllipticFunction, _eps)
VF_OFF(EllipticFunction, _kKc) VF_OFF(EllipticFunction, _eEc) VF_OFF(EllipticFunction, _dDc) VF_OFF(EllipticFunction, _pPic) VF_OFF(EllipticFunction, _gGc) VF_OFF(EllipticFunction, _hHc)
using namespace GeographicLib;
// replay helper: incomplete integral number `which` (0 F, 1 E, 2 D, 3 Pi, 4 G, 5 H) at (sn, cn, dn) and the complete one
VF_API void vf_ell(int which, double k2, double alpha2, double sn, double cn, double dn, double* out) {
  EllipticFunction e(k2, alpha2);
  switch (which) {
  case 0: out[0] = e.F(sn, cn, dn); out[1] = e.K(); break;
  case 1: out[0] = e.E(sn, cn, dn); out[1] = e.E(); break;
  case 2: out[0] = e.D(sn, cn, dn); out[1] = e.D(); break;
  case 3: out[0] = e.Pi(sn, cn, dn); out[1] = e.Pi(); break;
  case 4: out[0] = e.G(sn, cn, dn); out[1] = e.G(); break;
  default: out[0] = e.H(sn, cn, dn); out[1] = e.H(); break;
  }
}
