// wrapper unit: Accumulator<double> (explicit instantiation in src/Accumulator.cpp) together with Math.cpp
#include "Math.cpp"
#include "Accumulator.cpp"
#include "vf.h"
using namespace GeographicLib;
// native entry points: apply one operation to the accumulator state (s, t) and return the new state
VF_API void vf_acc_add(double* s, double* t, double y) { Accumulator<double> a; a._s = *s; a._t = *t; a.Add(y); *s = a._s; *t = a._t; }
VF_API void vf_acc_mul(double* s, double* t, double y) { Accumulator<double> a; a._s = *s; a._t = *t; a *= y; *s = a._s; *t = a._t; }
VF_API double vf_acc_sum(double s, double t, double y) { Accumulator<double> a; a._s = s; a._t = t; return a.Sum(y); }
