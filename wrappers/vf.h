// helper macros for wrapper units (ours; the real .cpp is #included by each wrapper)
#pragma once
#include <cstddef>
#define VF_OFF(C, m) extern "C" { extern const long vf_off_##C##_##m; const long vf_off_##C##_##m = (long)offsetof(GeographicLib::C, m); }
#define VF_SIZE(C) extern "C" { extern const long vf_size_##C; const long vf_size_##C = (long)sizeof(GeographicLib::C); }
#define VF_API extern "C" __attribute__((noinline, used))
