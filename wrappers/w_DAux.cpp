// wrapper unit: the real src/DAuxLatitude.cpp (divided differences used by the rhumb-line solver) + native entry points
#include "DAuxLatitude.cpp"
#include "vf.h"
using namespace GeographicLib;
VF_API double vf_datan(double x, double y) { return DAuxLatitude::Datan(x, y); }
VF_API double vf_dasinh(double x, double y) { return DAuxLatitude::Dasinh(x, y); }
VF_API double vf_dsn(double x, double y) { return DAuxLatitude::Dsn(x, y); }
