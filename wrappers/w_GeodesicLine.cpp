// wrapper unit: the real src/GeodesicLine.cpp + layout constants
#include "GeodesicLine.cpp"
#include "vf.h"
VF_SIZE(GeodesicLine)
VF_OFF(GeodesicLine, _caps) VF_OFF(GeodesicLine, _exact) VF_OFF(GeodesicLine, _f) VF_OFF(GeodesicLine, _a13) VF_OFF(GeodesicLine, _s13) VF_OFF(GeodesicLine, _lineexact)
// replay helper: a real line object (constructed by the real constructor) in caller-provided storage
using namespace GeographicLib;
VF_API void vf_make_line(char* buf, double a, double f, double lat1, double lon1, double azi1, unsigned caps) {
  Geodesic g(a, f);
  new (buf) GeodesicLine(g, lat1, lon1, azi1, caps);
}
