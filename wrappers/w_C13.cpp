// wrapper unit for C13 constructor-validation / NaN-transparency obligations
#include "Math.cpp"
#include "Geocentric.cpp"
#include "PolarStereographic.cpp"
#include "vf.h"
VF_SIZE(Geocentric) VF_SIZE(PolarStereographic)
VF_OFF(PolarStereographic, _a) VF_OFF(PolarStereographic, _k0) VF_OFF(PolarStereographic, _c) VF_OFF(PolarStereographic, _e2) VF_OFF(PolarStereographic, _e2m) VF_OFF(PolarStereographic, _es)
VF_OFF(Geocentric, _a) VF_OFF(Geocentric, _f) VF_OFF(Geocentric, _e2) VF_OFF(Geocentric, _e2m) VF_OFF(Geocentric, _e2a) VF_OFF(Geocentric, _e4a) VF_OFF(Geocentric, _maxrad)
