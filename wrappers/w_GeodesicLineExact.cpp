// wrapper unit: the real src/GeodesicLineExact.cpp + layout constants
#include "GeodesicLineExact.cpp"
#include "vf.h"
VF_SIZE(GeodesicLineExact)
VF_OFF(GeodesicLineExact, _caps) VF_OFF(GeodesicLineExact, _f) VF_OFF(GeodesicLineExact, _a13) VF_OFF(GeodesicLineExact, _s13) VF_OFF(GeodesicLineExact, _eE)
using namespace GeographicLib;
VF_API void vf_make_line(char* buf, double a, double f, double lat1, double lon1, double azi1, unsigned caps) {
  GeodesicExact g(a, f);
  new (buf) GeodesicLineExact(g, lat1, lon1, azi1, caps);
}
