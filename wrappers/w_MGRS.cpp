// wrapper unit: the real src/MGRS.cpp (+ Utility.cpp for lookup) and native entry points
#include "Utility.cpp"
#include "MGRS.cpp"
#include "vf.h"
using namespace GeographicLib;
// oracle 4 helper: latitude of a UTM point computed by the real projection code of the current tree
VF_API double vf_utm_lat(int northp, double x, double y) {
  double lat, lon; UTMUPS::Reverse(31, northp != 0, x, y, lat, lon, false); return lat;
}
VF_API int vf_utmrow(int iband, int icol, int irow) { return MGRS::UTMRow(iband, icol, irow); }
