// wrapper unit: PolarStereographic, LambertConformalConic, AlbersEqualArea + layout constants
#include "PolarStereographic.cpp"
#include "LambertConformalConic.cpp"
#include "AlbersEqualArea.cpp"
#include "vf.h"
VF_SIZE(PolarStereographic) VF_SIZE(LambertConformalConic) VF_SIZE(AlbersEqualArea)
VF_OFF(PolarStereographic, _a) VF_OFF(PolarStereographic, _f) VF_OFF(PolarStereographic, _e2) VF_OFF(PolarStereographic, _es) VF_OFF(PolarStereographic, _e2m) VF_OFF(PolarStereographic, _c) VF_OFF(PolarStereographic, _k0)
VF_OFF(LambertConformalConic, _sign) VF_OFF(LambertConformalConic, _n) VF_OFF(LambertConformalConic, _nc) VF_OFF(LambertConformalConic, _scale) VF_OFF(LambertConformalConic, _k0) VF_OFF(LambertConformalConic, _nrho0) VF_OFF(LambertConformalConic, _drhomax)
VF_OFF(AlbersEqualArea, _sign) VF_OFF(AlbersEqualArea, _k0) VF_OFF(AlbersEqualArea, _k2) VF_OFF(AlbersEqualArea, _n0) VF_OFF(AlbersEqualArea, _nrho0)
using namespace GeographicLib;
// replay helpers on the real code
VF_API void vf_albers_roundtrip(double stdlat1, double stdlat2, double lat, double lon, double* out) {
  AlbersEqualArea p(6378137.0, 1/298.257223563, stdlat1, stdlat2, 1.0);
  double x, y, g, k; p.Forward(0, lat, lon, x, y, g, k); p.Reverse(0, x, y, out[0], out[1], g, k); out[2] = x; out[3] = y;
}
VF_API void vf_lcc_setscale(double stdlat1, double stdlat2, double lat, double k, double plat, double plon, double* out) {
  LambertConformalConic p(6378137.0, 1/298.257223563, stdlat1, stdlat2, 1.0);
  double g, k0, k1; p.Forward(0, plat, plon, out[0], out[1], g, k0); out[4] = k0;
  p.SetScale(lat, k); p.Forward(0, plat, plon, out[2], out[3], g, k1); out[5] = k1;
}
VF_API void vf_albers_cyl(double k0, double lat, double lon, double* out) {
  AlbersEqualArea p(6378137.0, 1/298.257223563, 0.0, k0);      // single standard parallel on the equator: the cylindrical limit _n0 = 0
  double x, y, g, k; p.Forward(0, lat, lon, x, y, g, k); p.Reverse(0, x, y, out[0], out[1], g, k); out[2] = x; out[3] = y; out[4] = p._n0;
}
