// wrapper unit: the real src/Math.cpp + native entry points
#include "Math.cpp"
#include "vf.h"
using namespace GeographicLib;
VF_API double vf_tauf(double taup, double es) { return Math::tauf(taup, es); }
VF_API double vf_taupf(double tau, double es) { return Math::taupf(tau, es); }
VF_API double vf_AngNormalize(double x) { return Math::AngNormalize(x); }
VF_API double vf_AngRound(double x) { return Math::AngRound(x); }
VF_API double vf_AngDiff(double x, double y, double* e) { return Math::AngDiff(x, y, *e); }
VF_API double vf_sum(double u, double v, double* t) { return Math::sum(u, v, *t); }
VF_API void vf_sincosd(double x, double* s, double* c) { Math::sincosd(x, *s, *c); }
VF_API double vf_atan2d(double y, double x) { return Math::atan2d(y, x); }
