// wrapper unit: the real src/Geodesic.cpp + layout constants and C entry points
#include "Geodesic.cpp"
#include "vf.h"
VF_SIZE(Geodesic)
VF_OFF(Geodesic, _a) VF_OFF(Geodesic, _f) VF_OFF(Geodesic, _f1) VF_OFF(Geodesic, _e2) VF_OFF(Geodesic, _ep2)
VF_OFF(Geodesic, _n) VF_OFF(Geodesic, _b) VF_OFF(Geodesic, _c2) VF_OFF(Geodesic, _etol2) VF_OFF(Geodesic, _exact)
VF_OFF(Geodesic, _aA3x) VF_OFF(Geodesic, _cC3x) VF_OFF(Geodesic, _cC4x)

// native entry points (used for translator validation and for replaying counterexamples on the real code)
using namespace GeographicLib;
VF_API double vf_A3f(double n, double eps) { Geodesic g(1, 2*n/(1+n)); return g.A3f(eps); }
VF_API void vf_C3f(double n, double eps, double* c) { Geodesic g(1, 2*n/(1+n)); g.C3f(eps, c); }
VF_API void vf_C4f(double n, double eps, double* c) { Geodesic g(1, 2*n/(1+n)); g.C4f(eps, c); }
VF_API double vf_A1m1f(double eps) { return Geodesic::A1m1f(eps); }
VF_API double vf_A2m1f(double eps) { return Geodesic::A2m1f(eps); }
VF_API void vf_C1f(double eps, double* c) { Geodesic::C1f(eps, c); }
VF_API void vf_C1pf(double eps, double* c) { Geodesic::C1pf(eps, c); }
VF_API void vf_C2f(double eps, double* c) { Geodesic::C2f(eps, c); }
VF_API double vf_SinCosSeries(int sinp, double sinx, double cosx, const double* c, int n) { return Geodesic::SinCosSeries(sinp != 0, sinx, cosx, c, n); }
VF_API double vf_c2(double a, double f) { Geodesic g(a, f); return g._c2; }
// replay helper on the real code: the inner GenInverse overload (sines and cosines of the azimuths)
VF_API double vf_geninverse(double a, double f, double lat1, double lon1, double lat2, double lon2, double* out) {
  Geodesic g(a, f); return g.GenInverse(lat1, lon1, lat2, lon2, Geodesic::DISTANCE | Geodesic::AZIMUTH | Geodesic::REDUCEDLENGTH | Geodesic::GEODESICSCALE, out[0], out[1], out[2], out[3], out[4], out[5], out[6], out[7], out[8]);
}
// the same with AREA requested (replay of the series-vs-exact obligations)
VF_API double vf_geninverse_area(double a, double f, double lat1, double lon1, double lat2, double lon2, double* out) {
  Geodesic g(a, f); return g.GenInverse(lat1, lon1, lat2, lon2, Geodesic::DISTANCE | Geodesic::AZIMUTH | Geodesic::REDUCEDLENGTH | Geodesic::GEODESICSCALE | Geodesic::AREA, out[0], out[1], out[2], out[3], out[4], out[5], out[6], out[7], out[8]);
}
