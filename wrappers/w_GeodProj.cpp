// wrapper unit: AzimuthalEquidistant, Gnomonic, CassiniSoldner, Intersect (selection logic) + layout constants + replay helpers
#include "AzimuthalEquidistant.cpp"
#include "Gnomonic.cpp"
#include "CassiniSoldner.cpp"
#include "Intersect.cpp"
#include "vf.h"
VF_SIZE(AzimuthalEquidistant) VF_SIZE(Gnomonic) VF_SIZE(CassiniSoldner) VF_SIZE(Intersect) VF_SIZE(Geodesic) VF_SIZE(GeodesicLine)
VF_OFF(AzimuthalEquidistant, eps_) VF_OFF(AzimuthalEquidistant, _earth)
VF_OFF(Gnomonic, eps0_) VF_OFF(Gnomonic, eps_) VF_OFF(Gnomonic, _earth) VF_OFF(Gnomonic, _a) VF_OFF(Gnomonic, _f)
VF_OFF(CassiniSoldner, _earth) VF_OFF(CassiniSoldner, _meridian) VF_OFF(CassiniSoldner, _sbet0) VF_OFF(CassiniSoldner, _cbet0)
VF_OFF(Intersect, _geod) VF_OFF(Intersect, _a) VF_OFF(Intersect, _f) VF_OFF(Intersect, _rR) VF_OFF(Intersect, _d) VF_OFF(Intersect, _eps) VF_OFF(Intersect, _tol) VF_OFF(Intersect, _delta)
VF_OFF(Intersect, _t1) VF_OFF(Intersect, _t2) VF_OFF(Intersect, _t3) VF_OFF(Intersect, _t4) VF_OFF(Intersect, _t5) VF_OFF(Intersect, _d1) VF_OFF(Intersect, _d2) VF_OFF(Intersect, _d3) VF_OFF(Intersect, _comp)
VF_OFF(Intersect, _cnt0) VF_OFF(Intersect, _cnt1) VF_OFF(Intersect, _cnt2) VF_OFF(Intersect, _cnt3) VF_OFF(Intersect, _cnt4)
VF_OFF(GeodesicLine, _lat1) VF_OFF(GeodesicLine, _lon1) VF_OFF(GeodesicLine, _azi1) VF_OFF(GeodesicLine, _caps)
using namespace GeographicLib;
namespace GeographicLib { typedef Intersect::XPoint IXPoint; }
VF_SIZE(IXPoint)
// replay helpers on the real code (WGS84)
VF_API void vf_ae_forward(double lat0, double lon0, double lat, double lon, double* out) {
  AzimuthalEquidistant p(Geodesic::WGS84()); p.Forward(lat0, lon0, lat, lon, out[0], out[1], out[2], out[3]);
  double s, a1, a2, m; out[8] = Geodesic::WGS84().Inverse(lat0, lon0, lat, lon, s, a1, a2, m); out[4] = s; out[5] = a1; out[6] = a2; out[7] = m;
}
VF_API void vf_gn_forward(double lat0, double lon0, double lat, double lon, double* out) {
  Gnomonic p(Geodesic::WGS84()); p.Forward(lat0, lon0, lat, lon, out[0], out[1], out[2], out[3]);
  double s, a1, a2, m, M12, M21; Geodesic::WGS84().Inverse(lat0, lon0, lat, lon, s, a1, a2, m, M12, M21); out[4] = s; out[5] = a1; out[6] = a2; out[7] = m; out[8] = M12;
}
VF_API void vf_next(double lat, double lon, double aziX, double aziY, double* out) {
  Intersect in(Geodesic::WGS84()); int c; Intersect::Point p = in.Next(lat, lon, aziX, aziY, &c); out[0] = p.first; out[1] = p.second; out[2] = c;
  GeodesicLine lx = Geodesic::WGS84().Line(lat, lon, aziX), ly = Geodesic::WGS84().Line(lat, lon, aziY);
  double la, lo, lb, lob; lx.Position(p.first, la, lo); ly.Position(p.second, lb, lob); double s; Geodesic::WGS84().Inverse(la, lo, lb, lob, s); out[3] = s;
}
extern "C" { extern const unsigned vf_caps[8]; const unsigned vf_caps[8] = { Geodesic::LATITUDE, Geodesic::LONGITUDE, Geodesic::AZIMUTH, Geodesic::DISTANCE, Geodesic::DISTANCE_IN, Geodesic::REDUCEDLENGTH, Geodesic::GEODESICSCALE, Geodesic::AREA }; }
// concrete replay of the shell obligations: largest deviation of the real projection code from its defining geometry,
// evaluated with the real geodesic solver at a few ordinary points (WGS84)
static double vf_dev(double a, double b) { return (a != a || b != b) ? ((a != a) == (b != b) ? 0 : 1e300) : std::fabs(a - b); }
VF_API double vf_c17_shell(int which) {
  const Geodesic& g = Geodesic::WGS84();
  const double P[][4] = { {40, -75, 41, -74}, {40, -75, 45, -80}, {-33, 151, -30, 140}, {10, 20, 10.5, 19}, {0, 0, 20, 30}, {60, 10, 58, 14}, {40, -75, 40, -75.5} };
  double dev = 0;
  for (unsigned k = 0; k < sizeof(P)/sizeof(P[0]); ++k) {
    double lat0 = P[k][0], lon0 = P[k][1], lat = P[k][2], lon = P[k][3];
    double s, a1, a2, m, M12, M21; g.Inverse(lat0, lon0, lat, lon, s, a1, a2, m, M12, M21);
    double sn, cs; Math::sincosd(a1, sn, cs);
    double x, y, azi, rk, la, lo, az2, rk2;
    switch (which) {
    case 1: { AzimuthalEquidistant p(g); p.Forward(lat0, lon0, lat, lon, x, y, azi, rk);
        dev = std::fmax(dev, vf_dev(x, s * sn)); dev = std::fmax(dev, vf_dev(y, s * cs)); dev = std::fmax(dev, vf_dev(azi, a2)); dev = std::fmax(dev, vf_dev(rk, m / s)); } break;
    case 2: { AzimuthalEquidistant p(g); x = s * sn; y = s * cs; p.Reverse(lat0, lon0, x, y, la, lo, az2, rk2);
        dev = std::fmax(dev, 1e5 * vf_dev(la, lat)); dev = std::fmax(dev, 1e5 * vf_dev(lo, lon)); dev = std::fmax(dev, vf_dev(az2, a2)); dev = std::fmax(dev, vf_dev(rk2, m / s)); } break;
    case 3: { Gnomonic p(g); p.Forward(lat0, lon0, lat, lon, x, y, azi, rk);
        dev = std::fmax(dev, vf_dev(x, m / M12 * sn)); dev = std::fmax(dev, vf_dev(y, m / M12 * cs)); dev = std::fmax(dev, vf_dev(azi, a2)); dev = std::fmax(dev, vf_dev(rk, M12)); } break;
    case 4: { Gnomonic p(g); x = m / M12 * sn; y = m / M12 * cs; p.Reverse(lat0, lon0, x, y, la, lo, az2, rk2);
        dev = std::fmax(dev, 1e5 * vf_dev(la, lat)); dev = std::fmax(dev, 1e5 * vf_dev(lo, lon)); dev = std::fmax(dev, vf_dev(az2, a2)); dev = std::fmax(dev, vf_dev(rk2, M12)); } break;
    case 5: case 6: { CassiniSoldner p(lat0, lon0, g); p.Forward(lat, lon, x, y, azi, rk);
        // defining geometry: the point is at distance x along the geodesic leaving the central meridian at right angles at meridian distance y
        double la1, lo1, az1; g.Direct(lat0, lon0, 0, y, la1, lo1, az1); double la2, lo2, az3, M; g.Direct(la1, lo1, az1 + 90, x, la2, lo2, az3, M, M21);
        if (which == 6) { dev = std::fmax(dev, 1e5 * vf_dev(la2, lat)); dev = std::fmax(dev, 1e5 * vf_dev(lo2, lon)); dev = std::fmax(dev, vf_dev(az3, azi)); }
        else { p.Reverse(x, y, la, lo, az2, rk2); dev = std::fmax(dev, 1e5 * vf_dev(la, la2)); dev = std::fmax(dev, 1e5 * vf_dev(lo, lo2)); dev = std::fmax(dev, vf_dev(az2, az3)); dev = std::fmax(dev, vf_dev(rk2, M)); } } break;
    }
  }
  return dev;
}
VF_API void vf_fixcoincident(double p0x, double p0y, double px, double py, int c, double* out) {
  Intersect::XPoint r = Intersect::fixcoincident(Intersect::XPoint(p0x, p0y), Intersect::XPoint(px, py, c), c); out[0] = r.x; out[1] = r.y; out[2] = r.c;
}
VF_API void vf_fixsegment(double sx, double sy, double px, double py, int c, double* out) {
  Intersect::XPoint r = Intersect::fixsegment(sx, sy, Intersect::XPoint(px, py, c)); out[0] = r.x; out[1] = r.y; out[2] = r.c;
}
