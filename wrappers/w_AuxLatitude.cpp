// wrapper unit: the real src/AuxLatitude.cpp + layout constants and native entry points
#include "AuxLatitude.cpp"
#include "vf.h"
VF_SIZE(AuxLatitude)
VF_OFF(AuxLatitude, _a) VF_OFF(AuxLatitude, _b) VF_OFF(AuxLatitude, _f) VF_OFF(AuxLatitude, _n) VF_OFF(AuxLatitude, _n2) VF_OFF(AuxLatitude, _c)
VF_OFF(AuxLatitude, _fm1) VF_OFF(AuxLatitude, _e2) VF_OFF(AuxLatitude, _e2m1) VF_OFF(AuxLatitude, _e12) VF_OFF(AuxLatitude, _e12p1) VF_OFF(AuxLatitude, _e) VF_OFF(AuxLatitude, _e1) VF_OFF(AuxLatitude, _q)
using namespace GeographicLib;
// c[l] of the series converting auxin -> auxout on the ellipsoid with third flattening n
VF_API void vf_auxcoeff(double n, int auxin, int auxout, double* c) {
  AuxLatitude aux(1, 2*n/(1+n)); int k = AuxLatitude::ind(auxout, auxin);
  aux.fillcoeff(auxin, auxout, k);
  for (int l = 0; l < AuxLatitude::Lmax; ++l) c[l] = aux._c[AuxLatitude::Lmax * k + l];
}
VF_API double vf_auxclenshaw(int sinp, double s, double c, const double* co, int K) { return AuxLatitude::Clenshaw(sinp != 0, s, c, co, K); }
VF_API double vf_rectifyingradius(double n) { AuxLatitude aux(1, 2*n/(1+n)); return aux.RectifyingRadius(false); }
