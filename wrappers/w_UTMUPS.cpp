// wrapper unit: the real src/UTMUPS.cpp + C entry points for native validation / replay
#include "UTMUPS.cpp"
#include "vf.h"
using namespace GeographicLib;
// returns 0 on normal return, 1 if GeographicErr was thrown, 2 for any other exception
VF_API int vf_StandardZone(double lat, double lon, int setzone, int* zone) {
  try { *zone = UTMUPS::StandardZone(lat, lon, setzone); return 0; } catch (const GeographicErr&) { return 1; } catch (...) { return 2; }
}
VF_API int vf_CheckCoords(int utmp, int northp, double x, double y, int mgrslimits, int throwp, int* ok) {
  try { *ok = UTMUPS::CheckCoords(utmp != 0, northp != 0, x, y, mgrslimits != 0, throwp != 0); return 0; } catch (const GeographicErr&) { return 1; } catch (...) { return 2; }
}
VF_API int vf_DecodeEPSG(int epsg, int* zone, int* northp) { bool n = *northp != 0; try { UTMUPS::DecodeEPSG(epsg, *zone, n); *northp = n; return 0; } catch (const GeographicErr&) { return 1; } catch (...) { return 2; } }
VF_API int vf_EncodeEPSG(int zone, int northp) { return UTMUPS::EncodeEPSG(zone, northp != 0); }
VF_API int vf_Forward(double lat, double lon, int* zone, int* northp, double* x, double* y, double* gamma, double* k, int setzone, int mgrslimits) {
  bool n = *northp != 0;
  try { UTMUPS::Forward(lat, lon, *zone, n, *x, *y, *gamma, *k, setzone, mgrslimits != 0); *northp = n; return 0; }
  catch (const GeographicErr&) { *northp = n; return 1; } catch (...) { *northp = n; return 2; }
}
VF_API int vf_Reverse(int zone, int northp, double x, double y, double* lat, double* lon, double* gamma, double* k, int mgrslimits) {
  try { UTMUPS::Reverse(zone, northp != 0, x, y, *lat, *lon, *gamma, *k, mgrslimits != 0); return 0; } catch (const GeographicErr&) { return 1; } catch (...) { return 2; }
}
VF_API int vf_Transfer(int zonein, int northpin, double xin, double yin, int zoneout, int northpout, double* xout, double* yout, int* zone) {
  try { UTMUPS::Transfer(zonein, northpin != 0, xin, yin, zoneout, northpout != 0, *xout, *yout, *zone); return 0; } catch (const GeographicErr&) { return 1; } catch (...) { return 2; }
}
VF_API int vf_DecodeZone(const char* s, int len, int* zone, int* northp) {
  bool n = *northp != 0;
  try { UTMUPS::DecodeZone(std::string(s, len), *zone, n); *northp = n; return 0; } catch (const GeographicErr&) { *northp = n; return 1; } catch (...) { *northp = n; return 2; }
}
