// wrapper unit: the real src/Rhumb.cpp + layout constants and native entry points
#include "Rhumb.cpp"
#include "vf.h"
VF_SIZE(Rhumb)
VF_OFF(Rhumb, _aux) VF_OFF(Rhumb, _exact) VF_OFF(Rhumb, _a) VF_OFF(Rhumb, _f) VF_OFF(Rhumb, _n) VF_OFF(Rhumb, _rm) VF_OFF(Rhumb, _c2) VF_OFF(Rhumb, _lL) VF_OFF(Rhumb, _pP)
using namespace GeographicLib;
VF_API double vf_rhumb_pP(double n, int l) { Rhumb r(1, 2*n/(1+n), false); return r._pP[l]; }
