// wrapper unit for the shared-write-set obligations: AuxLatitude + AuxAngle + Math
#include "Math.cpp"
#include "AuxAngle.cpp"
#include "AuxLatitude.cpp"
#include "vf.h"
VF_SIZE(AuxLatitude)
