// wrapper unit for the shared-write-set obligations: OSGB + Math (TransverseMercator opaque)
#include "Math.cpp"
#include "Utility.cpp"
#include "OSGB.cpp"
#include "vf.h"
