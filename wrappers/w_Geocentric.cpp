// wrapper unit: the real src/Geocentric.cpp and src/LocalCartesian.cpp + layout constants and native entry points
#include "Geocentric.cpp"
#include "LocalCartesian.cpp"
#include "vf.h"
VF_SIZE(Geocentric) VF_SIZE(LocalCartesian)
VF_OFF(Geocentric, _a) VF_OFF(Geocentric, _f) VF_OFF(Geocentric, _e2) VF_OFF(Geocentric, _e2m) VF_OFF(Geocentric, _e2a) VF_OFF(Geocentric, _e4a) VF_OFF(Geocentric, _maxrad)
VF_OFF(LocalCartesian, _earth) VF_OFF(LocalCartesian, _x0) VF_OFF(LocalCartesian, _y0) VF_OFF(LocalCartesian, _z0) VF_OFF(LocalCartesian, _r)
using namespace GeographicLib;
// replay: Reverse with rotation matrix on the real code; returns lat, lon, h and M
VF_API void vf_geoc_reverse(double a, double f, double X, double Y, double Z, double* out) {
  Geocentric g(a, f); std::vector<double> M(9);
  g.Reverse(X, Y, Z, out[0], out[1], out[2], M);
  for (int i = 0; i < 9; ++i) out[3 + i] = M[i];
}
VF_API void vf_geoc_forward(double a, double f, double lat, double lon, double h, double* out) {
  Geocentric g(a, f); std::vector<double> M(9);
  g.Forward(lat, lon, h, out[0], out[1], out[2], M);
  for (int i = 0; i < 9; ++i) out[3 + i] = M[i];
}
