// wrapper unit: the real src/Geoid.cpp + layout constants
#include "Geoid.cpp"
#include "vf.h"
VF_SIZE(Geoid)
VF_OFF(Geoid, _cubic) VF_OFF(Geoid, _rlonres) VF_OFF(Geoid, _rlatres) VF_OFF(Geoid, _offset) VF_OFF(Geoid, _scale) VF_OFF(Geoid, _width) VF_OFF(Geoid, _height)
VF_OFF(Geoid, _datastart) VF_OFF(Geoid, _swidth) VF_OFF(Geoid, _threadsafe) VF_OFF(Geoid, _data) VF_OFF(Geoid, _cache) VF_OFF(Geoid, _xoffset) VF_OFF(Geoid, _yoffset)
VF_OFF(Geoid, _xsize) VF_OFF(Geoid, _ysize) VF_OFF(Geoid, _ix) VF_OFF(Geoid, _iy) VF_OFF(Geoid, _v00) VF_OFF(Geoid, _v01) VF_OFF(Geoid, _v10) VF_OFF(Geoid, _v11) VF_OFF(Geoid, _t) VF_OFF(Geoid, _file)
