// wrapper unit: the real src/DMS.cpp together with Utility.cpp
#include "Utility.cpp"
#include "DMS.cpp"
#include "vf.h"
