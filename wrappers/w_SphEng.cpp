// wrapper unit: the real src/SphericalEngine.cpp + layout constants and native entry points
#include "SphericalEngine.cpp"
#include "vf.h"
namespace GeographicLib { typedef SphericalEngine::coeff SphCoeff; }
VF_SIZE(SphCoeff)
VF_OFF(SphCoeff, _nNx) VF_OFF(SphCoeff, _nmx) VF_OFF(SphCoeff, _mmx) VF_OFF(SphCoeff, _cCnm) VF_OFF(SphCoeff, _sSnm)
using namespace GeographicLib;
// native: value of a degree-N (N = M) expansion with L coefficient sets; C, S packed as SphericalHarmonic expects; set l > 0 may be truncated to (nmx1, mmx1)
VF_API double vf_sph_value(int norm, int L, int N, int nmx1, int mmx1, const double* C0, const double* S0, const double* C1, const double* S1, double f1,
                           double x, double y, double z, double a) {
  SphericalEngine::RootTable(N + 2);
  int csz = SphericalEngine::coeff::Csize(N, N), ssz = SphericalEngine::coeff::Ssize(N, N);
  std::vector<double> c0(C0, C0 + csz), s0(S0, S0 + ssz), c1(C1, C1 + csz), s1(S1, S1 + ssz);
  SphericalEngine::coeff c[2] = { SphericalEngine::coeff(c0, s0, N), SphericalEngine::coeff(c1, s1, N, nmx1, mmx1) };
  double f[2] = {1, f1}, gx, gy, gz;
  if (L == 1) return norm == 0 ? SphericalEngine::Value<false, SphericalEngine::FULL, 1>(c, f, x, y, z, a, gx, gy, gz) : SphericalEngine::Value<false, SphericalEngine::SCHMIDT, 1>(c, f, x, y, z, a, gx, gy, gz);
  return norm == 0 ? SphericalEngine::Value<false, SphericalEngine::FULL, 2>(c, f, x, y, z, a, gx, gy, gz) : SphericalEngine::Value<false, SphericalEngine::SCHMIDT, 2>(c, f, x, y, z, a, gx, gy, gz);
}
