// wrapper unit: the real src/SphericalEngine.cpp + layout constants and native entry points
#include "SphericalEngine.cpp"
#include "vf.h"
namespace GeographicLib { typedef SphericalEngine::coeff SphCoeff; }
VF_SIZE(SphCoeff)
VF_OFF(SphCoeff, _nNx) VF_OFF(SphCoeff, _nmx) VF_OFF(SphCoeff, _mmx) VF_OFF(SphCoeff, _cCnm) VF_OFF(SphCoeff, _sSnm)
using namespace GeographicLib;
// native: value of a degree-N (N = M) expansion with L coefficient sets; C, S packed as SphericalHarmonic expects; set l > 0 may be truncated to (nmx1, mmx1)
VF_API double vf_sph_value(int norm, int L, int N, int nmx1, int mmx1, const double* C0, const double* S0, const double* C1, const double* S1, double f1,
                           double x, double y, double z, double a) {
  SphericalEngine::RootTable(N + 2);
  int csz = SphericalEngine::coeff::Csize(N, N), ssz = SphericalEngine::coeff::Ssize(N, N);
  std::vector<double> c0(C0, C0 + csz), s0(S0, S0 + ssz), c1(C1, C1 + csz), s1(S1, S1 + ssz);
  SphericalEngine::coeff c[2] = { SphericalEngine::coeff(c0, s0, N), SphericalEngine::coeff(c1, s1, N, nmx1, mmx1) };
  double f[2] = {1, f1}, gx, gy, gz;
  if (L == 1) return norm == 0 ? SphericalEngine::Value<false, SphericalEngine::FULL, 1>(c, f, x, y, z, a, gx, gy, gz) : SphericalEngine::Value<false, SphericalEngine::SCHMIDT, 1>(c, f, x, y, z, a, gx, gy, gz);
  return norm == 0 ? SphericalEngine::Value<false, SphericalEngine::FULL, 2>(c, f, x, y, z, a, gx, gy, gz) : SphericalEngine::Value<false, SphericalEngine::SCHMIDT, 2>(c, f, x, y, z, a, gx, gy, gz);
}
#include <sstream>
// replay helper: the real readcoeffs on a stream holding the header (N0, M0) followed by zero coefficients; 1 GeographicErr, 0 no exception, 2 any other exception
VF_API int vf_readcoeffs(int N, int M, int N0, int M0, int truncate, int* outNM) {
  std::string buf(8 + 8 * 4096, '\0'); std::memcpy(&buf[0], &N0, 4); std::memcpy(&buf[4], &M0, 4);
  std::istringstream str(buf, std::ios::binary); std::vector<double> C, S;
  try { GeographicLib::SphericalEngine::coeff::readcoeffs(str, N, M, C, S, truncate != 0); outNM[0] = N; outNM[1] = M; return 0; }
  catch (const GeographicLib::GeographicErr&) { return 1; }
  catch (const std::exception&) { return 2; }
}
