// wrapper unit: Geohash, GARS, Georef, OSGB and Utility (lookup) in one translation unit
#include "Utility.cpp"
#include "Geohash.cpp"
#include "GARS.cpp"
#include "Georef.cpp"
#include "OSGB.cpp"
#include "vf.h"
