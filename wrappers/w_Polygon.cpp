// wrapper unit: the real src/PolygonArea.cpp together with Math.cpp (AngDiff, AngNormalize, sum) + layout constants
#include "Math.cpp"
#include "PolygonArea.cpp"
#include "vf.h"
namespace GeographicLib { typedef PolygonAreaT<Geodesic> PolygonArea_G; }
VF_SIZE(PolygonArea_G)
VF_OFF(PolygonArea_G, _area0) VF_OFF(PolygonArea_G, _polyline) VF_OFF(PolygonArea_G, _mask) VF_OFF(PolygonArea_G, _num) VF_OFF(PolygonArea_G, _crossings)
VF_OFF(PolygonArea_G, _areasum) VF_OFF(PolygonArea_G, _perimetersum) VF_OFF(PolygonArea_G, _lat0) VF_OFF(PolygonArea_G, _lon0) VF_OFF(PolygonArea_G, _lat1) VF_OFF(PolygonArea_G, _lon1)
