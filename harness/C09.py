#!/usr/bin/env python3
"""C09 — rhumb lines: area series table (E2)"""
import z3
from fractions import Fraction
from vfw.run import Ob
from vfw import series, rsym, poly
from harness import common as H
from harness import polyid

W = 'w_Rhumb'
AREA = '@_ZN13GeographicLib5Rhumb10AreaCoeffsEv'
ASSUMPTIONS = [
    '[REAL] obligations: exact real meaning of the floating-point operations; rounding/NaN/overflow outside the claim',
    'Rhumb::AreaCoeffs executed on an object with symbolic _n, _exact = false and a 6-element coefficient vector; oracle: the order-8 table of the same function (GEOGRAPHICLIB_RHUMBAREA_ORDER=8) truncated — an independent second copy, not first principles',
    'accuracy of s12/azi12/S12, the divided-difference formulas, pole handling, direct/inverse consistency and the DST fit of the exact area are outside this claim (DESIGN.md §4)',
]

def prepare(ctx):
    H.ir_module(ctx, W); H.ir_module(ctx, W, defines=('GEOGRAPHICLIB_RHUMBAREA_ORDER=8',)); H.native(ctx, W)

def area_terms(m, nsym, L):
    offs = H.offsets(m, 'Rhumb'); ex = rsym.Exec(m)
    def mk(ex, mem):
        pp = ex.new_obj(mem, 'pp')
        cells = {offs['_n']: nsym, offs['_exact']: 0, offs['_lL']: L, offs['_pP']: pp, offs['_pP'] + 8: rsym.Ptr('pp', 8 * L), offs['_pP'] + 16: rsym.Ptr('pp', 8 * L)}
        return [ex.new_obj(mem, 'rh', cells)]
    p = ex.run_all(AREA, mk)
    assert len(p) == 1
    return [p[0].mem['pp'][8 * l] for l in range(L)]

def ob_area(ctx):
    m6 = H.ir_module(ctx, W); m8 = H.ir_module(ctx, W, defines=('GEOGRAPHICLIB_RHUMBAREA_ORDER=8',)); n = z3.Real('n')
    code = area_terms(m6, n, 6)
    ref = area_terms(m8, poly.Poly.var(1, 0), 8)
    specq = {l: ref[l].trunc(6).coeffs() for l in range(6)}
    specs = {l: series.mono_poly_z3(specq[l], [n]) for l in range(6)}
    nat = {'wrapper': W, 'fn': 'vf_rhumb_pP', 'sig': ['d', 'I'], 'result': 'ret'}
    return polyid.check(ctx, 'Rhumb::_pP', [(l, code[l]) for l in range(6)], specs, [n], [n > -1, n < 1], nat, specq=specq,
                        functions=['GeographicLib::Rhumb::AreaCoeffs', 'GeographicLib::Math::polyval'])

def obligations(ctx):
    return [Ob('Q1.area-table', ob_area, '[REAL]', 'E2 rsym+z3', 'Rhumb::AreaCoeffs (series branch): the 6 Fourier coefficients of the rhumb area integrand (21-entry table) equal the truncated order-8 series, as polynomials in n',
               timeout=300, bounds={'order': 6, 'n': '(-1,1)'})]

def replay(rp):
    return polyid.replay(rp)

MANIFEST = {
    'engine': 'E2',
    'technique': 'symbolic execution of clang IR over z3 reals; polynomial identities in n against the order-8 table executed to exact rationals',
    'text': 'Bounded solver verdict on the real code: the rhumb-area Fourier coefficients computed by Rhumb::AreaCoeffs (series mode) are obtained by symbolic execution of the IR for symbolic n and z3 decides equality with the '
            'truncated order-8 series from the same repository; a wrong table entry, offset or power of n is refuted with a concrete n replayed on a g++ build.',
    'note': 'Exact-real semantics, order 6 as compiled; oracle is a second copy inside the repository. Rhumb::GenInverse/GenDirect formulas, divided differences (DAuxLatitude), pole handling and accuracy are not decided by this obligation. '
            'Trusted: clang-14, vfw/irparse+rsym (validated each run against the native build), z3.',
}
