#!/usr/bin/env python3
"""C09 — rhumb lines: area series table (E2)"""
import z3
from fractions import Fraction
from vfw.run import Ob
from vfw import series, rsym, poly
from harness import common as H
from harness import polyid

W = 'w_Rhumb'
AREA = '@_ZN13GeographicLib5Rhumb10AreaCoeffsEv'
ASSUMPTIONS = [
    'divided-difference obligations (DAuxLatitude::Datan, Dasinh): atan and asinh are uninterpreted; each branch is compared with the divided difference it stands for, the addition theorem of atan is admitted only for x y > -1 (where it holds), that of asinh everywhere; the overflow guards (isinf) are outside the real model; Dsn was tried and z3 returned unknown (not claimed)',
    '[REAL] obligations: exact real meaning of the floating-point operations; rounding/NaN/overflow outside the claim',
    'Rhumb::AreaCoeffs executed on an object with symbolic _n, _exact = false and a 6-element coefficient vector; oracle: the order-8 table of the same function (GEOGRAPHICLIB_RHUMBAREA_ORDER=8) truncated — an independent second copy, not first principles',
    'accuracy of s12/azi12/S12, the divided-difference formulas, pole handling, direct/inverse consistency and the DST fit of the exact area are outside this claim (DESIGN.md §4)',
]

def prepare(ctx):
    H.ir_module(ctx, W); H.ir_module(ctx, W, defines=('GEOGRAPHICLIB_RHUMBAREA_ORDER=8',)); H.native(ctx, W); H.ir_module(ctx, WD); H.native(ctx, WD)

def area_terms(m, nsym, L):
    offs = H.offsets(m, 'Rhumb'); ex = rsym.Exec(m)
    def mk(ex, mem):
        pp = ex.new_obj(mem, 'pp')
        cells = {offs['_n']: nsym, offs['_exact']: 0, offs['_lL']: L, offs['_pP']: pp, offs['_pP'] + 8: rsym.Ptr('pp', 8 * L), offs['_pP'] + 16: rsym.Ptr('pp', 8 * L)}
        return [ex.new_obj(mem, 'rh', cells)]
    p = ex.run_all(AREA, mk)
    assert len(p) == 1
    return [p[0].mem['pp'][8 * l] for l in range(L)]

def ob_area(ctx):
    m6 = H.ir_module(ctx, W); m8 = H.ir_module(ctx, W, defines=('GEOGRAPHICLIB_RHUMBAREA_ORDER=8',)); n = z3.Real('n')
    code = area_terms(m6, n, 6)
    ref = area_terms(m8, poly.Poly.var(1, 0), 8)
    specq = {l: ref[l].trunc(6).coeffs() for l in range(6)}
    specs = {l: series.mono_poly_z3(specq[l], [n]) for l in range(6)}
    nat = {'wrapper': W, 'fn': 'vf_rhumb_pP', 'sig': ['d', 'I'], 'result': 'ret'}
    return polyid.check(ctx, 'Rhumb::_pP', [(l, code[l]) for l in range(6)], specs, [n], [n > -1, n < 1], nat, specq=specq,
                        functions=['GeographicLib::Rhumb::AreaCoeffs', 'GeographicLib::Math::polyval'])

# ---- divided differences of DAuxLatitude (used by the rhumb solver): each branch equals the divided difference it stands for, and the
#      addition-formula branch of Datan is entered only where the formula is valid
WD = 'w_DAux'
DATAN = '@_ZN13GeographicLib12DAuxLatitude5DatanEdd'; DASINH = '@_ZN13GeographicLib12DAuxLatitude6DasinhEdd'; DSN = '@_ZN13GeographicLib12DAuxLatitude3DsnEdd'
def ob_divdiff(ctx, which):
    import z3
    from vfw import rsym
    m = H.ir_module(ctx, WD); x, y = z3.Real('x'), z3.Real('y')
    calls = []
    def uf(name):
        def h(ex, a, mem):
            mem.setdefault('!calls', []).append((name, a[0])); return ex.UF(name, 1)(a[0])
        return h
    fn = {'Datan': DATAN, 'Dasinh': DASINH, 'Dsn': DSN}[which]
    ex = rsym.Exec(m, libm={'atan': uf('atan'), 'asinh': uf('asinh')}, path_cap=64)
    paths = ex.run_all(fn, lambda ex, mem: [x, y])
    q = 0; ss = 0.0; bad = None; unk = []; ncl = 0
    hx, hy = z3.Real('hx_spec'), z3.Real('hy_spec'); hyp = [hx > 0, hy > 0, hx * hx == 1 + x * x, hy * hy == 1 + y * y]
    for p in paths:
        cl = []; calls = p.mem.get('!calls', []); cond = list(p.cond)
        if which == 'Datan':
            if len(calls) == 0: cl.append(('x = y: the derivative 1/(1+x^2)', z3.Implies(x == y, p.ret * (1 + x * x) == 1)))
            elif len(calls) == 1:
                cl += [('addition formula used only where it is valid (x y > -1)', x * y > -1), ('argument of the addition formula', calls[0][1] * (1 + x * y) == y - x),
                       ('quotient by y - x', p.ret * (y - x) == ex.UF('atan', 1)(calls[0][1]))]
            else: cl.append(('plain divided difference (atan y - atan x)/(y - x)', p.ret * (y - x) == ex.UF('atan', 1)(y) - ex.UF('atan', 1)(x)))
        elif which == 'Dasinh':
            if len(calls) == 0: cl.append(('x = y: the derivative 1/hypot(1,x)', z3.Implies(z3.And(x == y, *hyp), p.ret * hx == 1)))
            elif len(calls) == 1:
                cl += [('argument is y hypot(1,x) - x hypot(1,y) (addition theorem of asinh, valid everywhere)', z3.Implies(z3.And(*hyp), calls[0][1] == y * hx - x * hy)),
                       ('quotient by y - x', p.ret * (y - x) == ex.UF('asinh', 1)(calls[0][1]))]
            else: cl.append(('plain divided difference', p.ret * (y - x) == ex.UF('asinh', 1)(y) - ex.UF('asinh', 1)(x)))
        else:
            cl.append(('Dsn (y - x) = y/hypot(1,y) - x/hypot(1,x), and the derivative for x = y', z3.Implies(z3.And(*hyp), z3.If(x == y, p.ret * hx * hx * hx == 1, p.ret * (y - x) == y / hy - x / hx))))
        for nm, c in cl:
            ncl += 1
            st, model, dt = rsym.prove(c, cond, timeout_ms=60000); q += 1; ss += dt
            if st == 'sat' and bad is None: bad = {'kind': 'divdiff', 'fn': which, 'claim': nm, 'x': str(rsym.model_value(model, x)), 'y': str(rsym.model_value(model, y))}
            elif st == 'unknown': unk.append(nm)
    r = {'queries': q, 'nontrivial': q, 'solver_s': round(ss, 3), 'functions': ['GeographicLib::DAuxLatitude::' + which], 'bounds': {'x, y': 'all finite reals', 'paths': len(paths), 'claims': ncl}}
    if bad: r.update({'verdict': 'violated', 'detail': 'DAuxLatitude::%s: "%s" refuted at x = %s, y = %s' % (which, bad['claim'], bad['x'], bad['y']), 'cex': bad})
    elif unk: r.update({'verdict': 'inconclusive', 'detail': 'unknown: %r' % unk})
    elif ncl == 0: r.update({'verdict': 'inconclusive', 'detail': 'no claims'})
    else: r['verdict'] = 'proved'
    return r

def replay_divdiff(cex):
    import ctypes, math
    from fractions import Fraction
    lib = H.native({}, WD); f = getattr(lib, 'vf_' + cex['fn'].lower()); f.restype = ctypes.c_double; f.argtypes = [ctypes.c_double] * 2
    g = {'Datan': math.atan, 'Dasinh': math.asinh, 'Dsn': lambda t: t / math.hypot(1, t)}[cex['fn']]
    pts = []
    try: pts.append((float(Fraction(cex['x'])), float(Fraction(cex['y'])))) 
    except Exception: pass
    pts += [(-1.0, 1.5), (-2.0, 0.9), (-0.7, 2.0), (-3.0, 0.5), (0.3, 0.4), (2.0, 5.0), (-1.25, 1.25)]
    worst = (0, None)
    for a, b in pts:
        if a == b: continue
        got = f(a, b); want = (g(b) - g(a)) / (b - a); d = abs(got - want)
        if d > worst[0]: worst = (d, (a, b, got, want))
    bad = worst[0] > 1e-9
    return bad, 'DAuxLatitude::%s on the real code: largest deviation from the divided difference over the counterexample and 7 ordinary pairs is %.3g%s' % (cex['fn'], worst[0], (' at (x, y) = (%g, %g): returns %.12g, divided difference %.12g' % worst[1]) if worst[1] else '')

def obligations(ctx):
    return [Ob('Q1.area-table', ob_area, '[REAL]', 'E2 rsym+z3', 'Rhumb::AreaCoeffs (series branch): the 6 Fourier coefficients of the rhumb area integrand (21-entry table) equal the truncated order-8 series, as polynomials in n',
               timeout=300, bounds={'order': 6, 'n': '(-1,1)'})] + [
        Ob('Q2.divided-difference.%s' % w, (lambda ctx, w=w: ob_divdiff(ctx, w)), '[REAL]', 'E2 rsym+z3', 'DAuxLatitude::%s: every branch equals the divided difference (f(y) - f(x))/(y - x) it stands for (derivative for x = y); addition formulas only where valid' % w, timeout=300) for w in ('Datan', 'Dasinh')]

def replay(rp):
    if rp['cex'].get('kind') == 'divdiff': return replay_divdiff(rp['cex'])
    return polyid.replay(rp)

MANIFEST = {
    'engine': 'E2',
    'technique': 'symbolic execution of clang IR over z3 reals; polynomial identities in n against the order-8 table executed to exact rationals',
    'text': 'Bounded solver verdict on the real code: the rhumb-area Fourier coefficients computed by Rhumb::AreaCoeffs (series mode) are obtained by symbolic execution of the IR for symbolic n and z3 decides equality with the '
            'truncated order-8 series from the same repository; a wrong table entry, offset or power of n is refuted with a concrete n replayed on a g++ build. DAuxLatitude::Datan and Dasinh: every branch equals the divided difference it stands for and the atan addition formula is used only where it is valid.',
    'note': 'Exact-real semantics, order 6 as compiled; oracle is a second copy inside the repository. Rhumb::GenInverse/GenDirect formulas, the other divided differences of DAuxLatitude, pole handling and accuracy are not decided. '
            'Trusted: clang-14, vfw/irparse+rsym (validated each run against the native build), z3.',
}
