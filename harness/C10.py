#!/usr/bin/env python3
"""C10 — text parsing: only Utility::nummatch (recognition of nan/inf spellings, used by Utility::val and DMS::Decode) is within reach (E1)"""
import os
from vfw.run import Ob
from vfw import e1, build
from harness import common as H

W = 'w_DMS'; HC = os.path.join(build.VERIF, 'harness', 'C10', 'c10.c')
NM = '@_ZN13GeographicLib7Utility8nummatchIdEET_RKNSt7__cxx1112basic_stringIcSt11char_traitsIcESaIcEEE'
ASSUMPTIONS = [
    'ONLY Utility::nummatch<double> is decided: for every byte string of the stated length it returns NaN / +-inf exactly for the documented spellings (optional sign, NAN | 1.#QNAN | 1.#SNAN | 1.#IND | 1.#R | INF | 1.#INF | INFINITY in any letter case, trailing zeros ignored) and 0 otherwise, never throws, never reads out of bounds, leaves its argument unchanged',
    'everything else in C10 is NOT decided and not claimed: DMS::Encode/Decode, Utility::str/val/fract, GeoCoords, the command-line tools. They are built on libstdc++ iostreams, std::to_string/stoll and locale-dependent number formatting; cbmc\'s C++ front end cannot parse them and an IR-level model of number formatting would itself be the thing verified (the property is about half a unit of the last printed digit). Seeds C10-1/C10-2 (DMS) are therefore not detected',
    'std::string is modelled at the libstdc++ ABI (stubs/cxx.c); toupper is the C-locale mapping',
]
def prepare(ctx): H.ir_module(ctx, W)

def _cb(n, timeout=600):
    def run(ctx):
        m = H.ir_module(ctx, W)
        return e1.cbmc_check(ctx, m, 'C10', [NM], HC, function='harness_nummatch', unwind=max(n + 4, 14), defines=['SLEN=%d' % n, 'VF_STR_MAX=%d' % (n + 2), 'VF_MEM_MAX=%d' % (n + 2)], timeout=timeout)
    run.cbmc_timeout = timeout
    return run

def obligations(ctx):
    lens = range(0, 12) if ctx['tier'] == 'thorough' else range(0, 10)
    return [Ob('Q1.nummatch.len%d' % n, _cb(n), '[BIT] FP mode N', 'E1 cgen+cbmc', 'Utility::nummatch<double> on every byte string of length %d: NaN / +-inf exactly for the documented spellings, 0 otherwise, no exception, no out-of-bounds access, argument unchanged' % n,
               timeout=630, tier='quick' if n < 10 else 'thorough', bounds={'string length': n, 'bytes': 'all 256 values incl. NUL'}) for n in lens]

def replay(rp):
    return e1.replay(rp, W, use_wrapper_obj=True)

MANIFEST = {
    'engine': 'E1',
    'technique': 'bounded model checking (cbmc) of C generated from the clang IR of Utility::nummatch<double>, one obligation per string length, std::string at ABI level',
    'text': 'Bounded solver verdicts on the real code, for a small part of the property only: Utility::nummatch<double> (the recognition of nan/inf spellings shared by Utility::val and DMS::Decode) returns NaN / the signed infinity exactly for the documented spellings and 0 for every other byte string up to length 9 (11 thorough), without exceptions or out-of-bounds access.',
    'note': 'DMS::Encode/Decode, Utility::str/val/fract, GeoCoords and the tools (iostream / to_string / stoll based) are outside what this technique reaches here and are not claimed; see DESIGN.md A.7. Trusted: clang-14, vfw/cgen, cbmc 6.11, the string model in stubs/cxx.c.',
}
