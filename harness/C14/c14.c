/* C14 harnesses (E1, FP mode N): shared write-set of const member functions / static functions.
   Every store, memcpy/memset destination and atomic update in the generated code is preceded by VF_WRITE(ptr, len), which asserts that the
   destination is neither inside the shared object (*this) nor a writable static of the translation unit — except stores to function-local
   statics while their C++11 thread-safe initialisation guard is held.  Concurrent executions that only read shared locations are race-free. */
static char* vf_shared; int vf_is_static(char* p); extern int vf_guard_depth;
#define VF_WRITE(p, n) __CPROVER_assert(!__CPROVER_same_object((char*)(p), vf_shared) && !(vf_is_static((char*)(p)) && vf_guard_depth == 0), "a const member / static function writes shared state outside a static-initialisation guard")
#include "fp_N.h"
#include "cxx.c"
double F__ZN13GeographicLib16EllipticFunction2RDEddd(double a, double b, double c) { return nondet_double(); }
double F__ZN13GeographicLib16EllipticFunction2RFEddd(double a, double b, double c) { return nondet_double(); }
/* other classes' const members are opaque here (each is the subject of its own obligation): they write only their output arguments */
void F__ZNK13GeographicLib18TransverseMercator7ForwardEdddRdS1_S1_S1_(char* t, double a, double b, double c, char* x, char* y, char* g, char* k) { *(double*)x = nondet_double(); *(double*)y = nondet_double(); *(double*)g = nondet_double(); *(double*)k = nondet_double(); }
void F__ZN13GeographicLib18TransverseMercatorC1Edddbb(char* t, double a, double f, double k0, uint8_t e, uint8_t x) { }
#include "gen.c"
static char shared_dummy[8];

#ifdef E_AUXCONVERT
VT_class_GeographicLib__AuxLatitude in_obj; VT_class_GeographicLib__AuxLatitude nondet_obj(void);
int in_auxin, in_auxout, in_exact; double in_y, in_x;
void harness(void) {
  in_obj = nondet_obj(); vf_shared = (char*)&in_obj;
  IN(in_auxin, nondet_int()); IN(in_auxout, nondet_int()); IN(in_exact, nondet_int() & 1); IN(in_y, nondet_double()); IN(in_x, nondet_double());
  __CPROVER_assume(in_auxin >= 0 && in_auxin < 6 && in_auxout >= 0 && in_auxout < 6);
#ifdef SERIES_ONLY
  __CPROVER_assume(in_exact == 0);
#endif
  /* representation invariant established by the constructors (obligation Q1.AuxLatitude.ctor-invariant): every row of the coefficient
     cache is filled, i.e. no sentinel NaN is left in the last slot of any row */
  for (int k = 0; k < 36; k++) __CPROVER_assume(!isnan(*(double*)((char*)&in_obj + C_OFF + 8 * (6 * (k + 1) - 1))));
  double zeta[2] = {in_y, in_x}; double ret[2];
  /* AuxAngle is returned in registers {double, double} */
  (void)F__ZNK13GeographicLib11AuxLatitude7ConvertEiiRKNS_8AuxAngleEb((char*)&in_obj, (uint32_t)in_auxin, (uint32_t)in_auxout, (char*)zeta, (uint8_t)in_exact);
  VF_WITNESS("end of harness (AuxLatitude::Convert)");
}
#endif

#ifdef E_OSGBNORTH
void harness(void) {
  vf_shared = shared_dummy;
  double r = F__ZN13GeographicLib4OSGB18computenorthoffsetEv();
  double r2 = F__ZN13GeographicLib4OSGB18computenorthoffsetEv();     /* second touch: initialisation already done */
  VF_WITNESS("end of harness (OSGB::computenorthoffset)");
}
#endif
