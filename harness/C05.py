#!/usr/bin/env python3
"""C05 — MGRS: UTMRow vs projection-derived table (oracle 4), CheckCoords, Reverse parser (E1)"""
import os, ctypes
from vfw.run import Ob
from vfw import e1, build
from harness import common as H

W = 'w_MGRS'; HC = os.path.join(build.VERIF, 'harness', 'C05', 'c05.c')
MG = '@_ZN13GeographicLib4MGRS'
REV = MG + '7ReverseERKNSt7__cxx1112basic_stringIcSt11char_traitsIcESaIcEEERiRbRdSB_S9_b'
ASSUMPTIONS = [
    'oracle 4: which 100 km blocks (column, true row) intersect which 8-degree latitude band is computed at check time by calling the current tree\'s UTMUPS::Reverse at the block corners nearest to / farthest from the central meridian (bands C and X extended to the UTM northing limits); MGRS::UTMRow is then compared with that table symbolically for all arguments',
    'CheckCoords: division-floor lemma (trusted): for T = 100000, floor(fl(x/T)) = floor(x/T) for |x| < 2^30 T; |x|, |y| < 1e13',
    'Reverse parser: MGRS::UTMRow replaced by the table that Q1 proves it equal to (assume-guarantee); FP mode N (decoded x, y values are not checked here); std::string at its ABI; message construction on throw paths cut',
    'the 5 nm band-edge tolerance, Forward digit extraction (64-bit division by 10^k) and the Forward/Reverse round trip are outside these obligations',
]

def oracle_table(ctx):
    """exp_utmrow[iband+10][icol][irow]: the true row R = irow (mod 20) whose block intersects band iband, else 100"""
    lib = H.native(ctx, W)
    f = lib.vf_utm_lat; f.restype = ctypes.c_double; f.argtypes = [ctypes.c_int, ctypes.c_double, ctypes.c_double]
    T = 100000.0
    def latrange(col, R):
        # block x in [(col+1)T, (col+2)T], true row R: y in [R T, (R+1) T] relative to the equator (negative rows: southern hemisphere)
        xs = [(col + 1) * T, (col + 2) * T]; xnear = min(xs, key=lambda x: abs(x - 5 * T)); xfar = max(xs, key=lambda x: abs(x - 5 * T))
        if R >= 0:
            lo = f(1, xfar, R * T); hi = f(1, xnear, (R + 1) * T)
        else:
            lo = f(0, xnear, R * T + 100 * T); hi = f(0, xfar, (R + 1) * T + 100 * T)
        return lo, hi
    rows = {}
    for col in range(8):
        for R in range(-90, 95): rows[(col, R)] = latrange(col, R)
    tab = [[[100] * 20 for _ in range(8)] for _ in range(20)]
    amb = []
    for b in range(-10, 10):
        blo = -1e9 if b == -10 else 8.0 * b; bhi = 1e9 if b == 9 else 8.0 * b + 8.0
        for col in range(8):
            for ir in range(20):
                hits = [R for R in range(-90, 95) if R % 20 == ir and rows[(col, R)][1] > blo and rows[(col, R)][0] < bhi]
                if len(hits) == 1: tab[b + 10][col][ir] = hits[0]
                elif len(hits) > 1: amb.append((b, col, ir, hits)); tab[b + 10][col][ir] = hits[0]
    return tab, amb

def prepare(ctx):
    H.ir_module(ctx, W)
    tab, amb = oracle_table(ctx)
    d = os.path.join(build.scratch(), 'c05-oracle'); os.makedirs(d, exist_ok=True)
    with open(os.path.join(d, 'oracle_utmrow.h'), 'w') as fh:
        fh.write('/* generated at check time from UTMUPS::Reverse of the current tree */\nstatic const signed char exp_utmrow[20][8][20] = {\n')
        for b in tab: fh.write(' {' + ', '.join('{' + ','.join(str(v) for v in c) + '}' for c in b) + '},\n')
        fh.write('};\n')
    ctx['c05_oracle_dir'] = d; ctx['c05_ambiguous'] = amb

def _cb(fn, roots, defines=(), unwind=8, timeout=300, stop=()):
    def run(ctx):
        m = H.ir_module(ctx, W)
        if ctx.get('c05_ambiguous'): return {'verdict': 'broken', 'detail': 'oracle table ambiguous: %r' % ctx['c05_ambiguous'][:3]}
        r = e1.cbmc_check(ctx, m, 'C05', roots, HC, function=fn, unwind=unwind, defines=list(defines), timeout=timeout, extra=['-I', ctx['c05_oracle_dir']], stop=list(stop))
        if r.get('cex') is not None: r['cex']['oracle_dir'] = ctx['c05_oracle_dir']
        return r
    run.cbmc_timeout = timeout
    return run

def obligations(ctx):
    obs = [
        Ob('Q1.UTMRow', _cb('harness_utmrow', [MG + '6UTMRowEiii'], unwind=4), '[BIT]', 'E1 cgen+cbmc',
           'MGRS::UTMRow(iband, icol, irow) equals the projection-derived table for all 20 x 8 x 20 arguments: a block is accepted with a band letter exactly when it intersects that band (C, X extended), incl. the special rows 70/71/79/80',
           bounds={'iband': '[-10,10)', 'icol': '[0,8)', 'irow': '[0,20)'}),
        Ob('Q2.CheckCoords', _cb('harness_checkcoords', [MG + '11CheckCoordsEbRbRdS2_'], defines=['H_CHECKCOORDS'], unwind=4, timeout=600), '[BIT-P]', 'E1 cgen+cbmc',
           'MGRS::CheckCoords: half-open ranges with the closed upper edge nudged down by eps, GeographicErr and untouched arguments otherwise; UTM hemisphere folding moves the northing by exactly 10000 km; the equator given as a southern northing stays S',
           timeout=630, bounds={'x,y': 'all doubles with |.| < 1e13'}),
    ]
    thorough = ctx['tier'] == 'thorough'
    for n in (range(0, 30) if thorough else range(0, 10)):
        obs.append(Ob('Q4.Reverse.len%d' % n, _cb('harness_reverse', [REV], defines=['H_REVERSE', 'SLEN=%d' % n, 'VF_STR_MAX=%d' % (n + 2), 'VF_MEM_MAX=%d' % (n + 2)], unwind=max(n + 4, 32), timeout=600, stop=[MG + '6UTMRowEiii']), '[BIT] FP mode N', 'E1 cgen+cbmc',
                      'MGRS::Reverse on every byte string of length %d: accepted iff in the MGRS grammar with a block that intersects its band; zone, hemisphere, precision; INV -> INVALID; GeographicErr only; outputs untouched on throw; no out-of-bounds access' % n,
                      timeout=630, tier='quick' if n < 10 else 'thorough', bounds={'string length': n, 'bytes': 'all 256 values incl. NUL'}))
    return obs

def replay(rp):
    ctx = {}
    prepare(ctx)
    cex = rp['cex']
    cex.setdefault('defines', [])
    # the oracle header must be on the include path of the replay build too
    import shutil
    shutil.copy(os.path.join(ctx['c05_oracle_dir'], 'oracle_utmrow.h'), os.path.join(os.path.dirname(HC), '.oracle_utmrow.h.tmp'))
    try:
        os.replace(os.path.join(os.path.dirname(HC), '.oracle_utmrow.h.tmp'), os.path.join(build.scratch(), 'oracle_utmrow.h'))
        os.environ['C_INCLUDE_PATH'] = build.scratch() + (':' + os.environ['C_INCLUDE_PATH'] if os.environ.get('C_INCLUDE_PATH') else '')
        return e1.replay(rp, W, use_wrapper_obj=True)
    finally:
        pass

MANIFEST = {
    'engine': 'E1',
    'technique': 'bounded model checking (cbmc) of C generated from the clang IR of MGRS.cpp; block/band oracle computed at check time from the real projection code; parser on arbitrary byte strings',
    'text': 'Bounded solver verdicts on the real code of MGRS.cpp: UTMRow equals, for all 3200 arguments, the table of which 100 km blocks intersect which latitude band (derived at check time from UTMUPS::Reverse of the current tree); CheckCoords implements the half-open ranges, '
            'edge nudges and hemisphere folding for every double; Reverse accepts exactly the MGRS grammar on every byte string up to the stated lengths, throws only GeographicErr and leaves its outputs untouched on throw.',
    'note': 'String lengths: quick <= 9, thorough <= 29 (= longest legal string + 2). Forward digit extraction and the numeric round trip are not decided here (64-bit division by 10^k: no SAT verdict within budget); the 5 nm band-edge tolerance is outside the claim. '
            'Trusted: clang-14, vfw/cgen, cbmc 6.11, stubs/cxx.c, the division-floor lemma, the real UTMUPS::Reverse as table generator.',
}
