/* C20 harness (E1): Geoid::CacheArea on a small raster (width 4, height 3).  FP precise; AngNormalize by contract (NaN for non-finite, else within [-180,180]).  The file and the row storage are an environment:
   seekg(filepos) and readarray record which raster cells each read delivers.  Decided: no float->int conversion out of range for ANY doubles (incl. NaN,
   infinities), only GeographicErr, and every cached cell (row r, column c of the cache) holds the raster cell it stands for. */
#include "fp_P.h"          /* precise IEEE arithmetic: the four scalings by the (constant) resolutions are real multiplications */
#include "cxx.c"
double __CPROVER_uninterpreted_angnorm(double);
double F__ZN13GeographicLib4Math3NaNIdEET_v(void) { return VF_NAN; }
double F__ZN13GeographicLib4Math12AngNormalizeIdEET_S2_(double x) {
  double r = __CPROVER_uninterpreted_angnorm(x);
  if (isnan(x) || isinf(x)) return VF_NAN;
  __CPROVER_assume(r >= -180.0 && r <= 180.0 && !(r == 180.0 && 0)); return r;
}
#define RW 4
#define RH 3
#define MAXROWS 6
#define MAXCOLS 5      /* at most the whole width (4) is cached */
/* environment: the file position and the reads */
long cur_pos; int cleared;
int cell_row[MAXROWS][MAXCOLS], cell_col[MAXROWS][MAXCOLS], cell_set[MAXROWS][MAXCOLS];
unsigned short rowbuf[MAXROWS][MAXCOLS]; char* rowhdr[MAXROWS][3];
void F__ZNK13GeographicLib5Geoid10CacheClearEv(char* g) { cleared++; }
char* F__ZNSi5seekgESt4fposI11__mbstate_tE(char* stream, int64_t off, int64_t state) { cur_pos = off; return stream; }
/* void readarray<unsigned short, unsigned short, true>(istream&, unsigned short* dst, size_t n): the n cells starting at the current position */
void F__ZN13GeographicLib7Utility9readarrayIttLb1EEEvRSiPT0_m(char* stream, char* dst, uint64_t n) {
  long rel = cur_pos - 1000;           /* _datastart = 1000 in this harness */
  __CPROVER_assert(rel >= 0 && (rel & 1) == 0, "reads start inside the raster data");
  long cell = rel / 2; int row = (int)(cell / RW), col = (int)(cell % RW);
  __CPROVER_assert(n <= (uint64_t)(RW - col), "a read never runs past the end of its raster row");
  /* which cache cells does dst cover? */
  __CPROVER_assert(__CPROVER_POINTER_OBJECT(dst) == __CPROVER_POINTER_OBJECT((char*)rowbuf), "reads go into the cache rows");
  long d_all = (unsigned short*)dst - &rowbuf[0][0]; int r = (int)(d_all / MAXCOLS), c0 = (int)(d_all % MAXCOLS);
  __CPROVER_assert(d_all >= 0 && r < MAXROWS && (uint64_t)c0 + n <= MAXCOLS, "reads stay inside one cache row");
  for (int k = 0; k < MAXCOLS; k++) if ((uint64_t)k < n && r >= 0 && r < MAXROWS && c0 + k < MAXCOLS) { cell_row[r][c0 + k] = row; cell_col[r][c0 + k] = col + k; cell_set[r][c0 + k] = 1; }
  cur_pos += 2 * (long)n;
}
int nrows_alloc, ncols_alloc;
/* vector<vector<pixel_t>>::_M_fill_insert(pos, n, value): on the (empty) cache: n rows of value.size() columns */
void F__ZNSt6vectorIS_ItSaItEESaIS1_EE14_M_fill_insertEN9__gnu_cxx17__normal_iteratorIPS1_S3_EEmRKS1_(char* v, char* pos, uint64_t n, char* val) {
  __CPROVER_assert(n <= MAXROWS, "harness bound: cache rows");
  long cols = (((char**)val)[1] - ((char**)val)[0]) / 2;
  __CPROVER_assert(cols >= 0 && cols <= MAXCOLS, "harness bound: cache columns");
  nrows_alloc = (int)n; ncols_alloc = (int)cols;
  for (int r = 0; r < MAXROWS; r++) if ((uint64_t)r < n) { rowhdr[r][0] = (char*)rowbuf[r]; rowhdr[r][1] = (char*)(rowbuf[r] + cols); rowhdr[r][2] = (char*)(rowbuf[r] + MAXCOLS); }
  ((char**)v)[0] = (char*)rowhdr; ((char**)v)[1] = (char*)(rowhdr[0] + 3 * n); ((char**)v)[2] = (char*)(rowhdr[0] + 3 * MAXROWS);
}
/* vector<pixel_t>(n) for the fill value: operator new + memset are real; _M_default_append only for already existing rows (none here) */
void F__ZNSt6vectorItSaItEE17_M_default_appendEm(char* v, uint64_t n) { __CPROVER_assert(0, "rows are only created, never resized, from an empty cache"); }
static void mkE(char* ret) { S_P(ret) = S_BUF(ret); vf_str_init(ret, "E", 1); }
void F__ZStplIcSt11char_traitsIcESaIcEENSt7__cxx1112basic_stringIT_T0_T1_EEOS8_PKS5_(char* ret, char* a, char* b) { mkE(ret); }
void F__ZStplIcSt11char_traitsIcESaIcEENSt7__cxx1112basic_stringIT_T0_T1_EEPKS5_RKS8_(char* ret, char* a, char* b) { mkE(ret); }
void F___clang_call_terminate(char* p) { __CPROVER_assert(0, "std::terminate is not reached"); }
#include "gen.c"
#define OFF(x) (*(long*)&G_vf_off_Geoid_##x)
#define FLD(T, x) (*(T*)(gp + OFF(x)))
VT_class_GeographicLib__Geoid in_g; VT_class_GeographicLib__Geoid nondet_geoid(void);
double in_s, in_w, in_n, in_e; int in_cubic;
void harness_cachearea(void) {
#ifdef __CPROVER__
  in_g = nondet_geoid();
#endif
  char* gp = (char*)&in_g;
  IN(in_s, nondet_double()); IN(in_w, nondet_double()); IN(in_n, nondet_double()); IN(in_e, nondet_double()); IN(in_cubic, nondet_int() & 1);
  FLD(int, _width) = RW; FLD(int, _height) = RH; FLD(unsigned long long, _swidth) = RW; FLD(unsigned char, _cubic) = (unsigned char)in_cubic; FLD(unsigned char, _threadsafe) = 0;
  FLD(double, _rlonres) = RW / 360.0; FLD(double, _rlatres) = (RH - 1) / 180.0; FLD(unsigned long long, _datastart) = 1000;
  ((char**)(gp + OFF(_data)))[0] = 0; ((char**)(gp + OFF(_data)))[1] = 0; ((char**)(gp + OFF(_data)))[2] = 0;       /* empty cache */
  vf_exc = 0; cleared = 0; cur_pos = 0;
  F__ZNK13GeographicLib5Geoid9CacheAreaEdddd(gp, in_s, in_w, in_n, in_e);
  __CPROVER_assert(vf_exc == 0 || vf_exc == 1, "CacheArea throws nothing but GeographicErr");
  if (vf_exc || cleared || in_s > in_n) { VF_WITNESS("cache cleared (south > north) or request rejected"); return; }
  int xs = FLD(int, _xsize), ys = FLD(int, _ysize), xo = FLD(int, _xoffset), yo = FLD(int, _yoffset);
  __CPROVER_assert(xs >= 1 && xs <= MAXCOLS && ys >= 1 && ys <= MAXROWS && xs == ncols_alloc && ys == nrows_alloc, "the cache has the advertised size");
  for (int r = 0; r < MAXROWS; r++) for (int c = 0; c < MAXCOLS; c++) if (r < ys && c < xs) {
    /* the raster cell that cache cell (r, c) stands for: row yo + r (reflected beyond a pole, with the longitude shifted by half a turn), column xo + c modulo the width */
    int iy = yo + r, ix = xo + c;
    if (iy < 0 || iy >= RH) { iy = iy < 0 ? -iy : 2 * (RH - 1) - iy; ix += RW / 2; }
    ix = ((ix % RW) + RW) % RW;
    __CPROVER_assert(cell_set[r][c] && cell_row[r][c] == iy && cell_col[r][c] == ix, "every cached cell holds the raster cell it stands for (wrap at longitude 0, reflection beyond the poles)");
  }
  VF_WITNESS("area cached");
}
