/* C20 harnesses (E1).  height(): FP mode U, rawval opaque (a pure function of the cell indices and of the unchanged raster);
   the history quantifier is discharged by a two-step harness: any reachable single-cell cache state is the state left by ONE earlier
   non-hit query on a freshly cleared object (each non-hit query overwrites the whole cell cache, a hit leaves it unchanged). */
#ifdef H_RANGE
#define VF_OPAQUE_MULDIV 1
#include "fp_P.h"
#else
#define VF_NO_CONV_CHECK 1
#define VF_U_CONV 1        /* floor and float->int conversion are uninterpreted too: the history claim needs congruence only */
#include "fp_U.h"
#endif
#include "cxx.c"
double __CPROVER_uninterpreted_angnorm(double); double __CPROVER_uninterpreted_raw(int, int);
double F__ZN13GeographicLib4Math3NaNIdEET_v(void) { return VF_NAN; }
double F__ZN13GeographicLib4Math12AngNormalizeIdEET_S2_(double x) {
#ifdef H_RANGE
  double r = __CPROVER_uninterpreted_angnorm(x);
  if (isnan(x) || isinf(x)) return VF_NAN;
  __CPROVER_assume(r >= -180.0 && r <= 180.0); return r;
#else
  return __CPROVER_uninterpreted_angnorm(x);
#endif
}
int raw_calls;
double F__ZNK13GeographicLib5Geoid6rawvalEii(char* g, uint32_t ix, uint32_t iy) { raw_calls++; return __CPROVER_uninterpreted_raw((int)ix, (int)iy); }
#ifdef H_RANGE
/* scaling lon * _rlonres, lat * _rlatres: arbitrary but finite for finite operands and bounded as the harness bounds the resolution */
double vf_muldiv(int site, int isdiv, double a, double b) {
  if (isnan(a) || isnan(b)) return VF_NAN;
  double r = nondet_double(); __CPROVER_assume(!isnan(r));
  if (!isinf(a) && !isinf(b)) __CPROVER_assume(r > -0x1p30 && r < 0x1p30);
  return r;
}
#endif
#include "gen.c"
#define OFF(x) (*(long*)&G_vf_off_Geoid_##x)
#define FLD(T, x) (*(T*)(gp + OFF(x)))
static int sameb(double a, double b) { return vf_d2bits(a) == vf_d2bits(b); }

VT_class_GeographicLib__Geoid in_g; VT_class_GeographicLib__Geoid nondet_geoid(void);
double in_lat1, in_lon1, in_lat2, in_lon2;
void harness_height_history(void) {
  in_g = nondet_geoid(); char* gp = (char*)&in_g;
  IN(in_lat1, nondet_double()); IN(in_lon1, nondet_double()); IN(in_lat2, nondet_double()); IN(in_lon2, nondet_double());
  int W = FLD(int, _width), Hh = FLD(int, _height);
  __CPROVER_assume(W >= 2 && W <= (1 << 20) && (W & 1) == 0 && Hh >= 3 && Hh <= (1 << 20) && (Hh & 1) == 1);
  FLD(unsigned char, _cubic) = CUBIC;
  /* freshly cleared cell cache (constructor / CacheClear state): _ix = _width never matches */
  FLD(int, _ix) = W; FLD(int, _iy) = Hh;
  vf_exc = 0;
  FLD(unsigned char, _threadsafe) = 1;                                          /* thread-safe mode: the cell cache is bypassed and not written */
  double r2 = F__ZNK13GeographicLib5Geoid6heightEdd(gp, in_lat2, in_lon2);      /* the query under test without any history */
  __CPROVER_assert(FLD(int, _ix) == W && FLD(int, _iy) == Hh, "thread-safe mode does not write the cell cache");
  FLD(unsigned char, _threadsafe) = 0;
  double h1 = F__ZNK13GeographicLib5Geoid6heightEdd(gp, in_lat1, in_lon1);      /* earlier query: leaves some cell cached */
  double h2 = F__ZNK13GeographicLib5Geoid6heightEdd(gp, in_lat2, in_lon2);      /* the query under test, with that history */
  __CPROVER_assert(vf_exc == 0, "height does not throw (rawval opaque)");
  __CPROVER_assert(sameb(h2, r2), "a query returns bit-identically the same height whatever was queried before (single-cell cache)");
  if (isnan(in_lat2) || isnan(in_lon2)) __CPROVER_assert(isnan(h2), "NaN position gives NaN height");
  VF_WITNESS("end of harness_height_history");
}

#ifdef H_RANGE
void harness_height_range(void) {
  in_g = nondet_geoid(); char* gp = (char*)&in_g;
  IN(in_lat1, nondet_double()); IN(in_lon1, nondet_double());
  int W = FLD(int, _width), Hh = FLD(int, _height);
  __CPROVER_assume(W >= 2 && W <= (1 << 20) && (W & 1) == 0 && Hh >= 3 && Hh <= (1 << 20) && (Hh & 1) == 1);
  FLD(unsigned char, _cubic) = CUBIC;
  /* constructor-established: the resolutions are finite and positive (_rlonres = width/360, _rlatres = (height-1)/180) */
  __CPROVER_assume(FLD(double, _rlonres) > 0.0 && FLD(double, _rlonres) < 0x1p20 && FLD(double, _rlatres) > 0.0 && FLD(double, _rlatres) < 0x1p20);
  vf_exc = 0;
  double h = F__ZNK13GeographicLib5Geoid6heightEdd(gp, in_lat1, in_lon1);
  __CPROVER_assert(vf_exc == 0, "height does not throw (rawval opaque)");
  VF_WITNESS("end of harness_height_range");
}
#endif
