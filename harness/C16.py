#!/usr/bin/env python3
"""C16 — angle arithmetic primitives (E1, FP mode P) and the conformal-latitude maps taupf/tauf (E2)"""
import os, z3
from fractions import Fraction
from vfw.run import Ob
from vfw import e1, build, rsym
from harness import common as H
from harness import polyid

W = 'w_Math'; HC = os.path.join(build.VERIF, 'harness', 'C16', 'c16.c')
M = '@_ZN13GeographicLib4Math'
ROOTS = {'angnormalize': M + '12AngNormalizeIdEET_S2_', 'anground': M + '8AngRoundIdEET_S2_', 'sum': M + '3sumIdEET_S2_S2_RS2_', 'angdiff': M + '7AngDiffIdEET_S2_S2_RS2_',
         'sincosd': M + '7sincosdIdEEvT_RS2_S3_', 'atan2d': M + '6atan2dIdEET_S2_S2_'}
ASSUMPTIONS = [
    'FP mode P: IEEE-754 double operators bit-precise; remainder, remquo, sin, cos, atan2, sqrt replaced by contracts stating documented C99 Annex F facts only (ranges, NaN/inf/zero cases, sign of zero, |remainder| <= y/2, identity below y/2)',
    'sincosd / atan2d: the scaling by pi/180 is an arbitrary sign- and zero-preserving double (hybrid mode), with |atan2/degree| <= 45 in the first octants',
    'TwoSum exactness itself is Knuth\'s theorem (TAOCP 4.2.2 Thm B): the check proves bit-equivalence of Math::sum with the textbook operation sequence',
    '"accurate to a couple of ulp", exact argument reduction for huge arguments (libm remquo), the accumulator\'s doubled precision, and the float32-exhaustive part of the quantifier are outside the claim',
    'tauf: [REAL] semantics; the published derivative formula d(taup)/d(tau) = (1-e^2) hypot(1,taup) / ((1 + (1-e^2) tau^2) / hypot(1,tau)) with e^2 = es*|es| (Karney 2011, eqs 7-9; same convention as Math::eatanhe) is the trusted specification of one Newton step',
]

def prepare(ctx):
    H.ir_module(ctx, W); H.native(ctx, W); H.ir_module(ctx, WA)

def _cb(name, defines=(), timeout=300, unwind=4):
    def run(ctx):
        m = H.ir_module(ctx, W)
        return e1.cbmc_check(ctx, m, 'C16', [ROOTS[name]], HC, function='harness_' + name, unwind=unwind, defines=list(defines), timeout=timeout)
    run.cbmc_timeout = timeout
    return run

# ---------------------------------------------------------------- E2: tauf Newton step
TAUF = M + '4taufIdEET_S2_S2_'
def ob_tauf(ctx):
    m = H.ir_module(ctx, W); lib = H.native(ctx, W)
    taup, es = z3.Real('taup'), z3.Real('es')
    hyp = lambda ex, a, mem: ex.UF('hypot', 2)(a[0], a[1])
    libm = {'hypot': hyp, 'sqrt': lambda ex, a, mem: (rsym.LIBM['sqrt'](ex, a, mem) if z3.is_rational_value(a[0]) else ex.UF('sqrt', 1)(a[0]))}
    queries = 0; nontriv = 0; solver_s = 0.0; bad = None; unk = []; npaths = 0; paths = []
    for pos in (True, False):
        sgn = es > 0 if pos else es < 0
        assume = [es > -1, es < 1, sgn, taup > -10**15, taup < 10**15]
        ex = rsym.Exec(m, libm=libm, assume=assume, path_cap=256, timeout_ms=1500)
        paths = ex.run_all(TAUF, lambda ex, mem: [taup, es]); npaths += len(paths)
        U = ex.UF
        def eat(x): return es * U('atanh', 1)(es * x) if pos else -es * U('atan', 1)(es * x)
        def taupf(tau):
            tau1 = U('hypot', 2)(rsym.RV(1), tau); sig = U('sinh', 1)(eat(tau / tau1))
            return U('hypot', 2)(rsym.RV(1), sig) * tau - sig * tau1
        e2 = es * es if pos else -(es * es)                        # e^2 = es |es|
        e2m = 1 - e2
        cands = []
        for small, tau0 in ((True, taup / e2m), (False, taup * U('exp', 1)(eat(rsym.RV(1))))):
            tau = tau0; cands.append((small, 0, tau))
            for k in range(1, 6):
                ta = taupf(tau)
                dtau = (taup - ta) * (1 + e2m * tau * tau) / (e2m * U('hypot', 2)(rsym.RV(1), tau) * U('hypot', 2)(rsym.RV(1), ta))
                tau = tau + dtau; cands.append((small, k, tau))
        for pi, p in enumerate(paths):
            code = p.ret; cond = list(p.cond)
            # which starting guess does the specification prescribe on this path?
            def dom(small): return z3.And(taup <= 70, taup >= -70) if small else z3.Or(taup > 70, taup < -70)
            match = None
            for small, k, t in cands:
                if z3.is_rational_value(z3.simplify(code - t)) and z3.simplify(code - t).numerator_as_long() == 0: match = (small, k, t); break
            if match:
                small, k, t = match
                st, model, dt = rsym.prove(z3.And(code == t, dom(small)), cond, timeout_ms=30000); queries += 1; solver_s += dt
                if st == 'unsat': nontriv += 1; continue
                if st == 'unknown': unk.append((pos, pi)); continue
            else:
                st, model, dt = rsym.prove(z3.Or(*[z3.And(code == t, dom(small)) for small, k, t in cands]), cond, timeout_ms=30000); queries += 1; solver_s += dt
                if st == 'unsat': nontriv += 1; continue
                if st == 'unknown':
                    # no structural match and the solver cannot relate the terms: take a concrete point of the path for the replay to judge
                    sv = z3.Solver(); sv.set('timeout', 10000); sv.add(*cond)
                    if sv.check() == z3.sat: model = sv.model(); st = 'sat'
                    else: unk.append((pos, pi)); continue
            bad = {'path': pi, 'sign': 'oblate' if pos else 'prolate', 'es': str(rsym.model_value(model, es)), 'taup': str(rsym.model_value(model, taup))}
            break
        if bad: break
    res = {'queries': queries, 'nontrivial': nontriv, 'solver_s': round(solver_s, 3), 'functions': ['GeographicLib::Math::tauf<double>', 'GeographicLib::Math::taupf<double>', 'GeographicLib::Math::eatanhe<double>'],
           'bounds': {'paths': npaths, 'Newton iterations': '<= 5 (the loop\'s own cap)', 'taup': '(-1e15, 1e15): both forms of the starting guess and the early return for huge tau', 'es': '(-1,1) \\ {0}'},
           'sample': {'paths': npaths, 'example_path_condition': str(paths[0].cond)[:300] if paths else None}}
    if bad:
        # concrete witness for the replay: a prolate/oblate eccentricity and a moderate tau
        res['verdict'] = 'violated'; res['detail'] = 'the Newton update of tauf is not tau - g/g\' with e^2 = es|es| on a %s path' % bad['sign']
        esv = float(Fraction(bad['es'])) if bad['es'] not in (None, 'None') else (-0.5 if bad['sign'] == 'prolate' else 0.5)
        res['cex'] = {'kind': 'tauf', 'es': esv, 'taup': bad.get('taup'), 'sign': bad['sign'], 'solver_model': bad}
    elif unk: res['verdict'] = 'inconclusive'; res['detail'] = 'solver unknown on paths %r' % unk
    else: res['verdict'] = 'proved'
    return res

WA = 'w_Accumulator'
ACC = '@_ZN13GeographicLib11AccumulatorIdE'
def ob_accumulator(ctx):
    """[REAL]: every mutating operation keeps the invariant  value = _s + _t  with value' = op(value, y)"""
    m = H.ir_module(ctx, WA)
    s0, t0, y = z3.Real('s0'), z3.Real('t0'), z3.Real('y')
    ops = [('Add', ACC + '3AddEd', [y], lambda v: v + y, 'vf_acc_add'), ('operator+=', ACC + 'pLEd', [y], lambda v: v + y, 'vf_acc_add'),
           ('operator-=', ACC + 'mIEd', [y], lambda v: v - y, None), ('operator*=(double)', ACC + 'mLEd', [y], lambda v: v * y, 'vf_acc_mul'),
           ('operator*=(int) k=-1', ACC + 'mLEi', [(-1) & 0xffffffff], lambda v: -v, None), ('operator*=(int) k=3', ACC + 'mLEi', [3], lambda v: 3 * v, None)]
    queries = 0; nontriv = 0; solver_s = 0.0; bad = None; unk = []
    for name, fn, args, spec, nat in ops:
        ex = rsym.Exec(m, path_cap=64)
        paths = ex.run_all(fn, lambda ex, mem: [ex.new_obj(mem, 'acc', {0: s0, 8: t0})] + list(args))
        for p in paths:
            cells = p.mem['acc']; val = cells[0] + cells[8]
            st, model, dt = rsym.prove(val == spec(s0 + t0), list(p.cond), timeout_ms=30000); queries += 1; solver_s += dt
            st2, _, dt2 = rsym.prove(z3.Real('fresh') == spec(s0 + t0), list(p.cond), timeout_ms=3000); queries += 1
            if st2 == 'sat': nontriv += 1
            if st == 'sat' and bad is None:
                bad = {'op': name, 'native': nat, 's0': str(rsym.model_value(model, s0)), 't0': str(rsym.model_value(model, t0)), 'y': str(rsym.model_value(model, y))}
            elif st == 'unknown': unk.append(name)
    res = {'queries': queries, 'nontrivial': nontriv, 'solver_s': round(solver_s, 3), 'functions': ['GeographicLib::Accumulator<double>::' + o[0] for o in ops] + ['GeographicLib::Math::sum<double>'],
           'bounds': {'operations': len(ops), 'state': 'arbitrary real (_s, _t)'}, 'sample': {'op': 'operator*=(double)', 'claim': '_s\' + _t\' == y * (_s + _t)'}}
    if bad: res.update({'verdict': 'violated', 'detail': 'Accumulator::%s does not keep value = _s + _t' % bad['op'], 'cex': dict(bad, kind='acc')})
    elif unk: res.update({'verdict': 'inconclusive', 'detail': 'solver unknown: %r' % unk})
    else: res['verdict'] = 'proved'
    return res

def obligations(ctx):
    obs = [
        Ob('Q1.AngNormalize', _cb('angnormalize'), '[BIT-P]', 'E1 cgen+cbmc', 'AngNormalize: result in [-180,180], identity on [-180,180], sign of the argument kept at 0 and +-180, NaN for NaN/inf — every double', bounds={'x': 'all doubles'}),
        Ob('Q2.AngRound', _cb('anground', timeout=600), '[BIT-P]', 'E1 cgen+cbmc', 'AngRound: identity for |x| >= 1/16 and NaN; otherwise sign kept, |result| <= 1/16, within 2^-58 of |x|, 0 or >= 2^-57 — every double', timeout=630, bounds={'x': 'all doubles'}),
        Ob('Q3.sum=TwoSum', _cb('sum', defines=['FPMODE_G'], timeout=300), '[ABS] congruence', 'E1 cgen+cbmc', 'Math::sum performs exactly the TwoSum operation sequence (TAOCP 4.2.2 Thm B): s = u + v, t = -(((s - v) - u) + ((s - (s - v)) - v)), and t = s when s = 0 — decided by congruence with + and - uninterpreted', timeout=330, bounds={'u,v': 'all doubles below 2^1022 in magnitude'}),
        Ob('T3.sum=TwoSum.bits', _cb('sum', timeout=1500), '[BIT-P]', 'E1 cgen+cbmc', 'the same equivalence decided bit-precisely on IEEE doubles', timeout=1530, tier='thorough', bounds={'u,v': 'all doubles below 2^1022 in magnitude'}),
        Ob('Q4.AngDiff', _cb('angdiff', timeout=600), '[BIT-P]', 'E1 cgen+cbmc', 'AngDiff(x,x) = +0 with zero error term for every finite x; AngDiff(x,0) = -x exactly for |x| <= 180', timeout=630, bounds={'x,y': 'all finite doubles'}),
        Ob('T4.AngDiff.range', _cb('angdiff', defines=['SMALL'], timeout=1500), '[BIT-P]', 'E1 cgen+cbmc', 'AngDiff result lies in [-180,180] for x, y in [-180,180] (bit-precise two TwoSum cascades)', timeout=1530, tier='thorough', bounds={'x,y': '[-180,180]'}),
        Ob('Q5.sincosd', _cb('sincosd', defines=['VF_OPAQUE_MULDIV'], timeout=600), '[BIT-P]', 'E1 cgen+cbmc', 'sincosd quadrant logic: outputs in [-1,1], cos never -0, zero sine takes the sign of x, exact values at 0, +-30, +-45, NaN for NaN/inf', timeout=630, bounds={'x': 'all doubles'}),
        Ob('Q6.atan2d', _cb('atan2d', defines=['VF_OPAQUE_MULDIV'], timeout=600), '[BIT-P]', 'E1 cgen+cbmc', 'atan2d octant logic: result in [-180,180], exact on the axes incl. signed zeros, correct half planes', timeout=630, bounds={'x,y': 'all doubles'}),
        Ob('Q7.tauf-newton', ob_tauf, '[REAL]', 'E2 rsym+z3', 'Math::tauf: on every path (up to the loop\'s 5 iterations) the result is the k-fold Newton iteration tau <- tau - (taupf(tau) - taup)/taupf\'(tau) from tau0 = taup/(1-e^2) for |taup| <= 70 and tau0 = taup*exp(eatanhe(1,es)) beyond, with e^2 = es|es| as in eatanhe (both signs of es)',
           timeout=900, bounds={'|taup|': '< 1e15', 'es': '(-1,1)\\{0}'}),
        Ob('Q8.Accumulator', ob_accumulator, '[REAL]', 'E2 rsym+z3', 'Accumulator<double>: Add, +=, -=, *=(double), *=(int) map the represented value _s + _t to value + y, value - y, value * y exactly (real semantics: the two-word representation loses nothing), from an arbitrary state — one inductive step covers every history',
           timeout=300, bounds={'state': 'arbitrary', 'history length': 'any (inductive step)'}),
    ]
    return obs

def replay(rp):
    cex = rp['cex']
    if cex.get('kind') == 'acc':
        import ctypes
        lib = H.native({}, WA)
        # the real-arithmetic counterexample is replayed in double precision with an error-free test: choose (s, t, y) with an inexact product and cancel the leading word
        f = getattr(lib, cex.get('native') or 'vf_acc_mul'); f.restype = None; f.argtypes = [ctypes.c_void_p, ctypes.c_void_p, ctypes.c_double]
        import math
        worst = 0.0; at = None
        for (s, t, y) in ((1.0 + 2.0**-30, 2.0**-60, 1.0 + 2.0**-29), (3.0, 2.0**-54, 1.0 / 3.0), (float(Fraction(cex['s0'])), float(Fraction(cex['t0'])), float(Fraction(cex['y'])))):
            S = ctypes.c_double(s); T = ctypes.c_double(t); f(ctypes.byref(S), ctypes.byref(T), y)
            exact = (Fraction(s) + Fraction(t)) * Fraction(y) if 'mul' in (cex.get('native') or 'mul') else Fraction(s) + Fraction(t) + Fraction(y)
            got = Fraction(S.value) + Fraction(T.value)
            err = abs(float((got - exact) / exact)) if exact else abs(float(got))
            if err > worst: worst, at = err, (s, t, y)
        bad = worst > 1e-25
        return bad, 'Accumulator %s from state (s,t)=%r with y=%r: represented value _s+_t differs from the exact result by a relative %.3g (double-double accuracy is ~1e-32)' % (cex['op'], at[:2], at[2], worst)
    if cex.get('kind') == 'tauf':
        import ctypes
        lib = H.native({}, W)
        f = lib.vf_tauf; f.restype = ctypes.c_double; f.argtypes = [ctypes.c_double, ctypes.c_double]
        g = lib.vf_taupf; g.restype = ctypes.c_double; g.argtypes = [ctypes.c_double, ctypes.c_double]
        es = cex['es']
        if abs(es) < 0.2: es = 0.5 if es > 0 else -0.5
        worst = 0.0; at = None; what = ''
        cands = [0.001, 0.1, 0.5, 1.0, 3.0]
        try:
            t0 = abs(float(Fraction(cex.get('taup'))))
            cands += [t0 * f for f in (1.0, 1e3, 1e6) if 0 < t0 * f < 1e300]
        except Exception: pass
        for tp in cands:
            for sg in (1.0, -1.0):
                t = f(sg * tp, es); back = g(t, es); err = abs(back - sg * tp) / tp       # taupf(tauf(taup)) = taup
                odd = abs(f(-sg * tp, es) + t) / max(abs(t), 1e-300)                      # tauf is odd
                if max(err, odd) > worst: worst, at, what = max(err, odd), sg * tp, ('round trip' if err >= odd else 'oddness')
        bad = worst > 1e-9
        return bad, 'Math::tauf at es=%g, taup=%g: %s violated with relative error %.3g (taupf(tauf(taup)) = taup and tauf(-taup) = -tauf(taup) must hold to round-off)' % (es, at, what, worst)
    return e1.replay(rp, W)

MANIFEST = {
    'engine': 'E1+E2',
    'technique': 'bounded model checking (cbmc, bit-precise IEEE doubles, libm by contract) of C generated from the clang IR of Math.cpp; symbolic execution over z3 reals for the Newton step of tauf',
    'text': 'Bounded solver verdicts on the real code of Math.cpp for every double: AngNormalize range/identity/sign rules, AngRound, Math::sum == Knuth TwoSum bit-for-bit, AngDiff range and x=y rule, sincosd quadrant logic and exact special values, '
            'atan2d octant logic with exact axis values; tauf performs Newton iterations with the derivative of taupf (both signs of the eccentricity).',
    'note': 'libm members by documented contract (their accuracy is not modelled); ulp-level accuracy, huge-argument reduction, Accumulator precision and the float32-exhaustive sweep are outside the claim. '
            'Trusted: clang-14, vfw/cgen+rsym, cbmc 6.11, z3, stubs/fp_P.h contracts.',
}
