/* C04 harnesses (E1).  gen.c is generated from the IR of wrappers/w_UTMUPS.cpp on every run. */
#include "fp_P.h"
#include "cxx.c"

/* harness inputs are globals named in_* so that the counterexample trace can be read back */
double in_lat, in_lon, in_lonn, in_x, in_y; int in_setzone, in_utmp, in_northp, in_mgrs, in_throwp, in_epsg, in_zone;

/* Math::AngNormalize<double> by contract (the function itself is verified in C16): NaN for NaN/inf, otherwise a value in
   [-180,180], equal to x when |x| <= 180.  The value returned is recorded so that the reference can be stated on it. */
double __CPROVER_uninterpreted_angnorm(double);
double F__ZN13GeographicLib4Math12AngNormalizeIdEET_S2_(double x) {
  double r = __CPROVER_uninterpreted_angnorm(x);
  if (isnan(x) || isinf(x)) r = VF_NAN;
  else { __CPROVER_assume(r >= -180.0 && r <= 180.0); if (x >= -180.0 && x <= 180.0) r = x; }
  in_lonn = r; return r;
}
double F__ZN13GeographicLib4Math3NaNIdEET_v(void) { return VF_NAN; }
/* Math::AngDiff by contract: NaN for NaN/inf arguments, otherwise a value in [-180,180]; recorded */
double in_dlon;
double F__ZN13GeographicLib4Math7AngDiffIdEET_S2_S2_RS2_(double x, double y, char* e) {
  double r = nondet_double();
  if (isnan(x) || isnan(y) || isinf(x) || isinf(y)) r = VF_NAN; else __CPROVER_assume(r >= -180.0 && r <= 180.0);
  *(double*)e = nondet_double(); in_dlon = r; return r;
}
/* the projections are opaque: they write arbitrary values, which are recorded together with their arguments */
static char tm_obj[8], ps_obj[8];
int tm_fwd_calls, tm_rev_calls, ps_fwd_calls, ps_rev_calls; double pa0, pa1, pa2; int pa_northp; double po0, po1, po2, po3;
char* F__ZN13GeographicLib18TransverseMercator3UTMEv(void) { return tm_obj; }
char* F__ZN13GeographicLib18PolarStereographic3UPSEv(void) { return ps_obj; }
static int proj_nan;   /* contract of the opaque projections: NaN in -> NaN out (their NaN transparency is a C13 obligation) */
static void proj_out(char* a, char* b, char* c, char* d) {
  po0 = nondet_double(); po1 = nondet_double(); po2 = nondet_double(); po3 = nondet_double();
  if (proj_nan) po0 = po1 = po2 = po3 = VF_NAN;
  *(double*)a = po0; *(double*)b = po1; *(double*)c = po2; *(double*)d = po3;
}
void F__ZNK13GeographicLib18TransverseMercator7ForwardEdddRdS1_S1_S1_(char* t, double lon0, double lat, double lon, char* x, char* y, char* g, char* k) { tm_fwd_calls++; pa0 = lon0; pa1 = lat; pa2 = lon; proj_nan = isnan(lat) || isnan(lon) || isnan(lon0); proj_out(x, y, g, k); }
void F__ZNK13GeographicLib18TransverseMercator7ReverseEdddRdS1_S1_S1_(char* t, double lon0, double x0, double y0, char* a, char* b, char* g, char* k) { tm_rev_calls++; pa0 = lon0; pa1 = x0; pa2 = y0; proj_nan = isnan(x0) || isnan(y0); proj_out(a, b, g, k); }
void F__ZNK13GeographicLib18PolarStereographic7ForwardEbddRdS1_S1_S1_(char* t, uint8_t np, double lat, double lon, char* x, char* y, char* g, char* k) { ps_fwd_calls++; pa_northp = np & 1; pa1 = lat; pa2 = lon; proj_nan = isnan(lat) || isnan(lon); proj_out(x, y, g, k); }
void F__ZNK13GeographicLib18PolarStereographic7ReverseEbddRdS1_S1_S1_(char* t, uint8_t np, double x0, double y0, char* a, char* b, char* g, char* k) { ps_rev_calls++; pa_northp = np & 1; pa1 = x0; pa2 = y0; proj_nan = isnan(x0) || isnan(y0); proj_out(a, b, g, k); }
/* C locale strtol, base 10 (bounded by the harness string length) */
uint64_t F_strtol(char* s, char* endp, uint32_t base) {
  int i = 0; int neg = 0; int64_t v = 0; int any = 0;
  while (i < 10 && (s[i] == ' ' || (s[i] >= 9 && s[i] <= 13))) i++;
  if (s[i] == '+' || s[i] == '-') { neg = s[i] == '-'; i++; }
  int j = i;
  while (j < 12 && s[j] >= '0' && s[j] <= '9') { v = v * 10 + (s[j] - '0'); j++; any = 1; }
  if (endp) *(char**)endp = any ? s + j : s;
  return (uint64_t)(any ? (neg ? -v : v) : 0);
}
#include "gen.c"
#ifdef VF_REPLAY
/* real symbols used to fill in what the contract stubs record during verification */
extern double _ZN13GeographicLib4Math12AngNormalizeIdEET_S2_(double);
extern double _ZN13GeographicLib4Math7AngDiffIdEET_S2_S2_RS2_(double, double, double*);
extern char* _ZN13GeographicLib18TransverseMercator3UTMEv(void);
extern char* _ZN13GeographicLib18PolarStereographic3UPSEv(void);
extern void _ZNK13GeographicLib18TransverseMercator7ForwardEdddRdS1_S1_S1_(char*, double, double, double, double*, double*, double*, double*);
extern void _ZNK13GeographicLib18TransverseMercator7ReverseEdddRdS1_S1_S1_(char*, double, double, double, double*, double*, double*, double*);
extern void _ZNK13GeographicLib18PolarStereographic7ForwardEbddRdS1_S1_S1_(char*, unsigned char, double, double, double*, double*, double*, double*);
extern void _ZNK13GeographicLib18PolarStereographic7ReverseEbddRdS1_S1_S1_(char*, unsigned char, double, double, double*, double*, double*, double*);
#endif
static int same(double a, double b) { return (isnan(a) && isnan(b)) || a == b; }
static int sameb(double a, double b) { return vf_d2bits(a) == vf_d2bits(b); }

/* NGA.SIG.0012 zone rules, comparisons and integers only */
static int ref_zone(double lat, double lonn) {
  int zone = 0;
  if (lonn == 180.0) zone = 1;
  for (int z = 1; z <= 60; z++) if (lonn >= 6.0 * z - 186.0 && lonn < 6.0 * z - 180.0) zone = z;
  if (lat >= 56.0 && lat < 64.0 && zone == 31 && lonn >= 3.0) zone = 32;                 /* Norway */
  if (lat >= 72.0) {                                                                        /* Svalbard (band X) */
    if (lonn >= 0.0 && lonn < 9.0) zone = 31; else if (lonn >= 9.0 && lonn < 21.0) zone = 33;
    else if (lonn >= 21.0 && lonn < 33.0) zone = 35; else if (lonn >= 33.0 && lonn < 42.0) zone = 37;
  }
  return zone;
}

void harness_standardzone(void) {
  IN(in_lat, nondet_double()); IN(in_lon, nondet_double()); IN(in_setzone, nondet_int());
#ifndef C13_ALL_LAT
  __CPROVER_assume(isnan(in_lat) || (in_lat >= -90.0 && in_lat <= 90.0));   /* C04 quantifier: |lat| <= 90 (or NaN) */
#endif
#ifdef EXCLUDE_INF_LON
  __CPROVER_assume(!isinf(in_lon));
#endif
  vf_exc = 0;
  int z = (int)F__ZN13GeographicLib6UTMUPS12StandardZoneEddi(in_lat, in_lon, (uint32_t)in_setzone);
#ifdef VF_REPLAY
  in_lonn = _ZN13GeographicLib4Math12AngNormalizeIdEET_S2_(in_lon);
#endif
  if (!(in_setzone >= -4 && in_setzone <= 60)) { __CPROVER_assert(vf_exc == 1, "illegal setzone throws GeographicErr"); return; }
  __CPROVER_assert(vf_exc == 0, "legal setzone does not throw");
  if (in_setzone >= 0 || in_setzone == -4) { __CPROVER_assert(z == in_setzone, "explicit zone returned unchanged"); return; }
  if (isnan(in_lat) || isnan(in_lon)) { __CPROVER_assert(z == -4, "NaN position gives INVALID"); return; }
  if (isinf(in_lon)) {   /* not a position: INVALID, or UPS where the zone does not depend on the longitude */
    __CPROVER_assert(z == -4 || (z == 0 && in_setzone != -2 && !(in_lat >= -80.0 && in_lat < 84.0)), "infinite longitude gives INVALID (or UPS at UPS latitudes)");
    return;
  }
  if (in_setzone == -2 || (in_lat >= -80.0 && in_lat < 84.0)) {
    __CPROVER_assert(isnan(in_lonn) || z == ref_zone(in_lat, in_lonn), "UTM zone equals NGA reference (incl. Norway/Svalbard)");
    __CPROVER_assert(isnan(in_lonn) || (z >= 1 && z <= 60), "UTM zone in 1..60");
  } else
    __CPROVER_assert(z == 0, "latitude outside [-80,84) gives UPS");
  VF_WITNESS("end of harness_standardzone");
}

/* documented rectangles (UTMUPS.hpp): UPS S/N: [8,32]x[8,32] / [13,27]x[13,27] (100 km), UTM: x in [1,9], y S [10,195] N [-90,95];
   +/- 100 km unless mgrslimits; closed; NaN accepted */
void harness_checkcoords(void) {
  IN(in_utmp, nondet_int() & 1); IN(in_northp, nondet_int() & 1); IN(in_mgrs, nondet_int() & 1); IN(in_throwp, nondet_int() & 1);
  IN(in_x, nondet_double()); IN(in_y, nondet_double());
  static const double xmin[4] = {800000, 1300000, 100000, 100000}, xmax[4] = {3200000, 2700000, 900000, 900000},
                      ymin[4] = {800000, 1300000, 1000000, -9000000}, ymax[4] = {3200000, 2700000, 19500000, 9500000};
  int ind = (in_utmp ? 2 : 0) + (in_northp ? 1 : 0); double slop = in_mgrs ? 0.0 : 100000.0;
  int ok_ref = !(in_x < xmin[ind] - slop || in_x > xmax[ind] + slop) && !(in_y < ymin[ind] - slop || in_y > ymax[ind] + slop);
  vf_exc = 0;
  int ok = F__ZN13GeographicLib6UTMUPS11CheckCoordsEbbddbb((uint8_t)in_utmp, (uint8_t)in_northp, in_x, in_y, (uint8_t)in_mgrs, (uint8_t)in_throwp) & 1;
  if (ok_ref) { __CPROVER_assert(vf_exc == 0 && ok == 1, "inside the documented rectangle: accepted"); }
  else if (in_throwp) { __CPROVER_assert(vf_exc == 1, "outside: throws GeographicErr when throwp"); }
  else { __CPROVER_assert(vf_exc == 0 && ok == 0, "outside: returns false when !throwp"); }
  VF_WITNESS("end of harness_checkcoords");
}

void harness_epsg(void) {
  IN(in_epsg, nondet_int()); IN(in_zone, nondet_int()); IN(in_northp, nondet_int() & 1);
  /* decode(encode(z,n)) == (z,n) for valid (z,n); encode gives -1 otherwise */
  int e = (int)F__ZN13GeographicLib6UTMUPS10EncodeEPSGEib((uint32_t)in_zone, (uint8_t)in_northp);
  int z = 12345; unsigned char np = 7;
  if (in_zone >= 0 && in_zone <= 60) {
    __CPROVER_assert(e == (in_zone == 0 ? (in_northp ? 32661 : 32761) : (in_northp ? 32600 : 32700) + in_zone), "EPSG code = 326zz/327zz, 32661/32761");
    F__ZN13GeographicLib6UTMUPS10DecodeEPSGEiRiRb((uint32_t)e, (char*)&z, (char*)&np);
    __CPROVER_assert(z == in_zone && np == in_northp, "DecodeEPSG(EncodeEPSG(z,n)) == (z,n)");
  } else __CPROVER_assert(e == -1, "EncodeEPSG of an invalid zone is -1");
  /* encode(decode(e)) == e whenever e decodes to a valid zone; all other ints decode to INVALID */
  z = 12345; np = 7;
  F__ZN13GeographicLib6UTMUPS10DecodeEPSGEiRiRb((uint32_t)in_epsg, (char*)&z, (char*)&np);
  int valid = (in_epsg >= 32601 && in_epsg <= 32660) || in_epsg == 32661 || (in_epsg >= 32701 && in_epsg <= 32760) || in_epsg == 32761;
  if (valid) {
    __CPROVER_assert(z >= 0 && z <= 60 && np <= 1, "valid EPSG decodes to a zone in 0..60");
    __CPROVER_assert((int)F__ZN13GeographicLib6UTMUPS10EncodeEPSGEib((uint32_t)z, np) == in_epsg, "EncodeEPSG(DecodeEPSG(e)) == e");
  } else __CPROVER_assert(z == -4 && np == 0, "other integers decode to INVALID, northp=false");
  VF_WITNESS("end of harness_epsg");
}

static int ref_inside(int utmp, int northp, double x, double y, int mgrs) {
  static const double xmin[4] = {800000, 1300000, 100000, 100000}, xmax[4] = {3200000, 2700000, 900000, 900000},
                      ymin[4] = {800000, 1300000, 1000000, -9000000}, ymax[4] = {3200000, 2700000, 19500000, 9500000};
  int ind = (utmp ? 2 : 0) + (northp ? 1 : 0); double slop = mgrs ? 0.0 : 100000.0;
  return !(x < xmin[ind] - slop || x > xmax[ind] + slop) && !(y < ymin[ind] - slop || y > ymax[ind] + slop);
}

int in_zone0; unsigned char in_np0; double in_x0, in_y0, in_g0, in_k0;
void harness_forward(void) {
  IN(in_lat, nondet_double()); IN(in_lon, nondet_double()); IN(in_setzone, nondet_int()); IN(in_mgrs, nondet_int() & 1);
  IN(in_zone0, nondet_int()); IN(in_np0, nondet_uchar() & 1); IN(in_x0, nondet_double()); IN(in_y0, nondet_double()); IN(in_g0, nondet_double()); IN(in_k0, nondet_double());
  int zone = in_zone0; unsigned char np = in_np0; double x = in_x0, y = in_y0, g = in_g0, k = in_k0;
  vf_exc = 0; tm_fwd_calls = ps_fwd_calls = 0; in_dlon = 0.0;
  F__ZN13GeographicLib6UTMUPS7ForwardEddRiRbRdS3_S3_S3_ib(in_lat, in_lon, (char*)&zone, (char*)&np, (char*)&x, (char*)&y, (char*)&g, (char*)&k, (uint32_t)in_setzone, (uint8_t)in_mgrs);
#ifdef VF_REPLAY
  { double e; if (in_setzone >= 1 && in_setzone <= 60) in_dlon = _ZN13GeographicLib4Math7AngDiffIdEET_S2_S2_RS2_(6.0 * in_setzone - 183.0, in_lon, &e); }
#endif
  if (vf_exc) {
    __CPROVER_assert(vf_exc == 1, "Forward throws only GeographicErr");
    __CPROVER_assert(zone == in_zone0 && np == in_np0 && sameb(x, in_x0) && sameb(y, in_y0) && sameb(g, in_g0) && sameb(k, in_k0), "Forward: outputs untouched on throw");
    /* a NaN coordinate is never the reason for an exception (legal setzone; a finite longitude may still be too far from an explicit zone) */
    int legit = !(in_setzone >= -4 && in_setzone <= 60) || in_lat > 90.0 || in_lat < -90.0 || isinf(in_lon) || (in_setzone == 0 && in_lat > -70.0 && in_lat < 70.0);
    __CPROVER_assert(!(isnan(in_lon) && !legit), "NaN longitude does not throw");
    __CPROVER_assert(!(isnan(in_lat) && !legit && !(in_dlon > 60.0)), "NaN latitude does not throw");
    VF_WITNESS("forward throw path");
    return;
  }
  __CPROVER_assert(!(in_lat > 90.0 || in_lat < -90.0), "|lat| > 90 is rejected");
  __CPROVER_assert(in_setzone >= -4 && in_setzone <= 60, "illegal setzone is rejected");
  __CPROVER_assert(np == !(vf_d2bits(in_lat) >> 63), "northp = !signbit(lat)");
  int exc0 = vf_exc; int z1 = (int)F__ZN13GeographicLib6UTMUPS12StandardZoneEddi(in_lat, in_lon, (uint32_t)in_setzone); vf_exc = exc0;
  __CPROVER_assert(zone == z1, "zone is StandardZone(lat, lon, setzone)");
  if (z1 == -4) {
    __CPROVER_assert(isnan(x) && isnan(y) && isnan(g) && isnan(k), "INVALID zone comes with NaN x, y, gamma, k");
    __CPROVER_assert(tm_fwd_calls + ps_fwd_calls == 0, "no projection for INVALID");
    return;
  }
  __CPROVER_assert(in_setzone >= 0 || (!isnan(in_lat) && !isnan(in_lon)), "NaN position yields INVALID unless a zone was given explicitly");
#ifdef VF_REPLAY
  if (z1 != 0) { tm_fwd_calls = 1; pa0 = 6.0 * z1 - 183.0; pa1 = in_lat; pa2 = in_lon;
    _ZNK13GeographicLib18TransverseMercator7ForwardEdddRdS1_S1_S1_(_ZN13GeographicLib18TransverseMercator3UTMEv(), pa0, in_lat, in_lon, &po0, &po1, &po2, &po3); }
  else { ps_fwd_calls = 1; pa_northp = !(vf_d2bits(in_lat) >> 63); pa1 = in_lat; pa2 = in_lon;
    _ZNK13GeographicLib18PolarStereographic7ForwardEbddRdS1_S1_S1_(_ZN13GeographicLib18PolarStereographic3UPSEv(), (unsigned char)pa_northp, in_lat, in_lon, &po0, &po1, &po2, &po3); }
#endif
  if (z1 != 0) {
    __CPROVER_assert(tm_fwd_calls == 1 && ps_fwd_calls == 0, "UTM zone uses the transverse Mercator projection once");
    __CPROVER_assert(pa0 == 6.0 * z1 - 183.0 && sameb(pa1, in_lat) && sameb(pa2, in_lon), "central meridian 6*zone-183, (lat, lon) passed through");
    __CPROVER_assert(same(x, po0 + 500000.0) && same(y, po1 + (np ? 0.0 : 10000000.0)), "UTM false easting 500 km, false northing 0 / 10000 km");
  } else {
    __CPROVER_assert(tm_fwd_calls == 0 && ps_fwd_calls == 1, "UPS uses the polar stereographic projection once");
    __CPROVER_assert(pa_northp == np && sameb(pa1, in_lat) && sameb(pa2, in_lon), "hemisphere and (lat, lon) passed through");
    __CPROVER_assert(same(x, po0 + 2000000.0) && same(y, po1 + 2000000.0), "UPS false origin 2000 km");
  }
  __CPROVER_assert(same(g, po2) && same(k, po3), "convergence and scale are those of the projection");
  __CPROVER_assert(ref_inside(z1 != 0, np, x, y, in_mgrs), "returned coordinates lie in the documented rectangle");
  VF_WITNESS("end of harness_forward");
}

double in_a0, in_b0;
void harness_reverse(void) {
  IN(in_zone, nondet_int()); IN(in_northp, nondet_int() & 1); IN(in_x, nondet_double()); IN(in_y, nondet_double()); IN(in_mgrs, nondet_int() & 1);
  IN(in_a0, nondet_double()); IN(in_b0, nondet_double()); IN(in_g0, nondet_double()); IN(in_k0, nondet_double());
  double lat = in_a0, lon = in_b0, g = in_g0, k = in_k0;
  vf_exc = 0; tm_rev_calls = ps_rev_calls = 0;
  F__ZN13GeographicLib6UTMUPS7ReverseEibddRdS1_S1_S1_b((uint32_t)in_zone, (uint8_t)in_northp, in_x, in_y, (char*)&lat, (char*)&lon, (char*)&g, (char*)&k, (uint8_t)in_mgrs);
  if (vf_exc) {
    __CPROVER_assert(vf_exc == 1, "Reverse throws only GeographicErr");
    __CPROVER_assert(sameb(lat, in_a0) && sameb(lon, in_b0) && sameb(g, in_g0) && sameb(k, in_k0), "Reverse: outputs untouched on throw");
#ifndef VF_REPLAY
    __CPROVER_assert(tm_rev_calls + ps_rev_calls == 0, "Reverse checks before use");
#endif
    __CPROVER_assert(!(in_zone == -4 || isnan(in_x) || isnan(in_y)), "INVALID / NaN input does not throw");
    VF_WITNESS("reverse throw path");
    return;
  }
  if (in_zone == -4 || isnan(in_x) || isnan(in_y)) { __CPROVER_assert(isnan(lat) && isnan(lon) && isnan(g) && isnan(k) && tm_rev_calls + ps_rev_calls == 0, "INVALID / NaN input gives NaN outputs"); return; }
  __CPROVER_assert(in_zone >= 0 && in_zone <= 60, "zone outside [0,60] is rejected");
  __CPROVER_assert(ref_inside(in_zone != 0, in_northp, in_x, in_y, in_mgrs), "coordinates outside the documented rectangle are rejected");
#ifdef VF_REPLAY
  if (in_zone != 0) { tm_rev_calls = 1; pa0 = 6.0 * in_zone - 183.0; pa1 = in_x - 500000.0; pa2 = in_y - (in_northp ? 0.0 : 10000000.0);
    _ZNK13GeographicLib18TransverseMercator7ReverseEdddRdS1_S1_S1_(_ZN13GeographicLib18TransverseMercator3UTMEv(), pa0, pa1, pa2, &po0, &po1, &po2, &po3); }
  else { ps_rev_calls = 1; pa_northp = in_northp; pa1 = in_x - 2000000.0; pa2 = in_y - 2000000.0;
    _ZNK13GeographicLib18PolarStereographic7ReverseEbddRdS1_S1_S1_(_ZN13GeographicLib18PolarStereographic3UPSEv(), (unsigned char)in_northp, pa1, pa2, &po0, &po1, &po2, &po3); }
#endif
  if (in_zone != 0) {
    __CPROVER_assert(tm_rev_calls == 1 && ps_rev_calls == 0 && pa0 == 6.0 * in_zone - 183.0, "UTM: transverse Mercator with central meridian 6*zone-183");
    __CPROVER_assert(pa1 == in_x - 500000.0 && pa2 == in_y - (in_northp ? 0.0 : 10000000.0), "UTM false origin removed");
  } else {
    __CPROVER_assert(tm_rev_calls == 0 && ps_rev_calls == 1 && pa_northp == in_northp, "UPS: polar stereographic, same hemisphere");
    __CPROVER_assert(pa1 == in_x - 2000000.0 && pa2 == in_y - 2000000.0, "UPS false origin removed");
  }
  __CPROVER_assert(sameb(lat, po0) && sameb(lon, po1) && sameb(g, po2) && sameb(k, po3), "outputs are those of the projection");
  VF_WITNESS("end of harness_reverse");
}

int in_zonein, in_zoneout, in_npin, in_npout;
void harness_transfer(void) {
  IN(in_zonein, nondet_int()); IN(in_zoneout, nondet_int()); IN(in_npin, nondet_int() & 1); IN(in_npout, nondet_int() & 1); IN(in_x, nondet_double()); IN(in_y, nondet_double());
  IN(in_x0, nondet_double()); IN(in_y0, nondet_double()); IN(in_zone0, nondet_int());
  double xo = in_x0, yo = in_y0; int zone = in_zone0;
  vf_exc = 0;
  F__ZN13GeographicLib6UTMUPS8TransferEibddibRdS1_Ri((uint32_t)in_zonein, (uint8_t)in_npin, in_x, in_y, (uint32_t)in_zoneout, (uint8_t)in_npout, (char*)&xo, (char*)&yo, (char*)&zone);
  if (vf_exc) {
    __CPROVER_assert(vf_exc == 1, "Transfer throws only GeographicErr");
    __CPROVER_assert(sameb(xo, in_x0) && sameb(yo, in_y0) && zone == in_zone0, "Transfer: outputs untouched on throw");
    VF_WITNESS("transfer throw path");
    return;
  }
  __CPROVER_assert(!(zone == 0 && in_zonein == in_zoneout && in_npin != in_npout), "UPS coordinates cannot change hemisphere");
  if (in_zonein == in_zoneout) {
    __CPROVER_assert(zone == in_zoneout && sameb(xo, in_x), "same zone: easting unchanged");
    __CPROVER_assert(in_npin == in_npout ? sameb(yo, in_y) : same(yo, in_y + (in_npout ? -10000000.0 : 10000000.0)), "same zone: northing shifted by 10000 km exactly when the hemisphere changes");
  }
  VF_WITNESS("end of harness_transfer");
}

#ifndef SLEN
#define SLEN 3
#endif
char in_s[SLEN + 1];
static int lc(int c) { return (c >= 'A' && c <= 'Z') ? c + 32 : c; }
static int word(const char* p, int n, const char* w) { int i = 0; for (; i < n && i < 8; i++) { if (!w[i] || lc(p[i]) != w[i]) return 0; } return w[i] == 0; }
void harness_decodezone(void) {
  vf_string strobj; char* str = (char*)&strobj;
  for (int i = 0; i < SLEN; i++) IN(in_s[i], nondet_char());
  in_s[SLEN] = 0;
  S_P(str) = S_BUF(str); vf_str_init(str, in_s, SLEN);
  IN(in_zone0, nondet_int()); IN(in_np0, nondet_uchar() & 1);
  int zone = in_zone0; unsigned char np = in_np0;
  vf_exc = 0;
  F__ZN13GeographicLib6UTMUPS10DecodeZoneERKNSt7__cxx1112basic_stringIcSt11char_traitsIcESaIcEEERiRb(str, (char*)&zone, (char*)&np);
  /* reference grammar on the bytes: [1-2 digits giving 1..60] (n|north|s|south) | (n|north|s|south) | inv | invalid, case-insensitive */
  int nd = 0; while (nd < SLEN && in_s[nd] >= '0' && in_s[nd] <= '9') nd++;
  int acc = 0, rz = 0, rn = 0;
  const char* h = in_s + nd; int hn = SLEN - nd;
  int hem = word(h, hn, "n") || word(h, hn, "north") ? 1 : (word(h, hn, "s") || word(h, hn, "south") ? 2 : 0);
  if (SLEN >= 1 && SLEN <= 7) {
    if (nd == 0) {
      if (word(h, hn, "inv") || word(h, hn, "invalid")) { acc = 1; rz = -4; rn = 0; }
      else if (hem) { acc = 1; rz = 0; rn = hem == 1; }
    } else if (nd <= 2) {
      int v = nd == 1 ? in_s[0] - '0' : (in_s[0] - '0') * 10 + (in_s[1] - '0');
      if (v >= 1 && v <= 60 && hem) { acc = 1; rz = v; rn = hem == 1; }
    }
  }
  if (acc) __CPROVER_assert(vf_exc == 0 && zone == rz && np == rn, "valid zone string decoded to the documented (zone, northp)");
  else {
    __CPROVER_assert(vf_exc == 1, "invalid zone string rejected with GeographicErr");
    __CPROVER_assert(zone == in_zone0 && np == in_np0, "DecodeZone: outputs untouched on throw");
  }
  VF_WITNESS("end of harness_decodezone");
}
