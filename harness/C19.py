#!/usr/bin/env python3
"""C19 — spherical harmonic sums equal their defining series (E2, small degree, symbolic coefficients)"""
import z3, ctypes, math, random
from fractions import Fraction
from vfw.run import Ob
from vfw import rsym
from harness import common as H

W = 'w_SphEng'
VAL = '@_ZN13GeographicLib15SphericalEngine5ValueILb0ELNS0_13normalizationE%dELi%dEEEdPKNS0_5coeffEPKdddddRdS8_S8_'
ASSUMPTIONS = [
    '[REAL] obligations: exact real meaning of the floating-point operations; the scaling by scale() = 2^(-614) cancels exactly over the reals; underflow/overflow behaviour and numerical stability are outside the claim',
    'degree and order N = M <= 2 with fully symbolic coefficient vectors; the square-root table holds the exact square roots (symbols r_k with r_k^2 = k); points with p = hypot(x,y) > 0 (off the polar axis) and sin(theta) above the eps clamp',
    'the defining sum: V = sum_{n<=N} sum_{m<=n} (a/r)^(n+1) (C_nm cos(m lam) + S_nm sin(m lam)) P_nm(cos theta) with fully normalised (4 pi) or Schmidt semi-normalised associated Legendre functions, written out explicitly for n <= 2',
    'gradient = derivative, circle = direct, gravity/magnetic model assembly and file readers are not covered by these obligations; real model files are outside the claim',
]

def prepare(ctx):
    H.ir_module(ctx, W); H.native(ctx, W)

def legendre(norm, t, u, r3, r5, r15):
    """P[n][m] for n <= 2.  norm 0 = FULL (4 pi), 1 = SCHMIDT"""
    if norm == 0:
        return {(0, 0): rsym.RV(1), (1, 0): r3 * t, (1, 1): r3 * u, (2, 0): r5 * (3 * t * t - 1) / 2, (2, 1): r15 * t * u, (2, 2): r15 * u * u / 2}
    return {(0, 0): rsym.RV(1), (1, 0): t, (1, 1): u, (2, 0): (3 * t * t - 1) / 2, (2, 1): r3 * t * u, (2, 2): r3 * u * u / 2}

def csize(N, M): return (M + 1) * (2 * N - M + 2) // 2
def cidx(N, n, m): return m * N - m * (m - 1) // 2 + n          # SphericalEngine::coeff::index

def run_value(ctx, norm, L, N, nmx1=None, mmx1=None):
    m = H.ir_module(ctx, W); o = H.offsets(m, 'SphCoeff')
    t, u, cl, sl, q, a = [z3.Real(x) for x in ('t', 'u', 'cl', 'sl', 'q', 'a')]
    roots = {k: z3.Real('root%d' % k) for k in range(0, max(2 * N + 8, 20))}
    rootc = [roots[k] * roots[k] == k for k in roots] + [roots[k] >= 0 for k in roots]
    for k in (0, 1, 4, 9, 16): roots[k] = rsym.RV(int(math.isqrt(k)))
    # the point: r free > 0, z = r t, p = r u, x = p cl, y = p sl
    r = z3.Real('r'); x, y, zz = r * u * cl, r * u * sl, r * t
    C = [[z3.Real('C%d_%d' % (l, i)) for i in range(csize(N, N))] for l in range(L)]
    S = [[z3.Real('S%d_%d' % (l, i)) for i in range(csize(N, N) - (N + 1))] for l in range(L)]
    f1 = z3.Real('f1')
    nm1, mm1 = (nmx1 if nmx1 is not None else N), (mmx1 if mmx1 is not None else N)
    def hyp(ex, args, mem):
        # hypot(x, y) = p = r u ; hypot(z, p) = r  (given u, r > 0, t^2+u^2=1, cl^2+sl^2=1): recognised by argument identity
        if args[0] is x and args[1] is y: return r * u
        return r
    def mk(ex, mem):
        rt = ex.new_obj(mem, 'roottab', {8 * k: roots[k] for k in roots})
        mem['@_ZZN13GeographicLib15SphericalEngine9sqrttableEvE9sqrttable'] = {0: rsym.Ptr('roottab', 0), 8: rsym.Ptr('roottab', 8 * len(roots)), 16: rsym.Ptr('roottab', 8 * len(roots))}
        mem['@_ZGVZN13GeographicLib15SphericalEngine9sqrttableEvE9sqrttable'] = {0: 1}
        cells = {}
        for l in range(L):
            ex.new_obj(mem, 'C%d' % l, {8 * i: C[l][i] for i in range(len(C[l]))}); ex.new_obj(mem, 'S%d' % l, {8 * i: S[l][i] for i in range(len(S[l]))})
            b = 32 * l
            cells.update({b + o['_nNx']: N, b + o['_nmx']: (N if l == 0 else nm1), b + o['_mmx']: (N if l == 0 else mm1), b + o['_cCnm']: rsym.Ptr('C%d' % l, 0), b + o['_sSnm']: rsym.Ptr('S%d' % l, 0)})
        ex.new_obj(mem, 'coef', cells); ex.new_obj(mem, 'f', {0: rsym.RV(1), 8: f1}); ex.new_obj(mem, 'g')
        return [rsym.Ptr('coef', 0), rsym.Ptr('f', 0), x, y, zz, a, rsym.Ptr('g', 0), rsym.Ptr('g', 8), rsym.Ptr('g', 16)]
    assume = [t * t + u * u == 1, cl * cl + sl * sl == 1, u > Fraction(1, 1000), r > 0, a > 0] + rootc
    ex = rsym.Exec(m, libm={'hypot': hyp}, assume=assume, path_cap=16)
    paths = ex.run_all(VAL % (norm, L), mk)
    # specification
    qq = a / r
    P = legendre(norm, t, u, roots[3], roots[5], roots[15])
    cosm = {0: rsym.RV(1), 1: cl, 2: cl * cl - sl * sl}; sinm = {0: rsym.RV(0), 1: sl, 2: 2 * sl * cl}
    spec = rsym.RV(0)
    for n in range(N + 1):
        for mm in range(n + 1):
            cn = C[0][cidx(N, n, mm)]; sn = S[0][cidx(N, n, mm) - (N + 1)] if mm > 0 else rsym.RV(0)
            for l in range(1, L):
                if mm <= mm1 and n <= nm1:
                    cn = cn + f1 * C[l][cidx(N, n, mm)]
                    if mm > 0: sn = sn + f1 * S[l][cidx(N, n, mm) - (N + 1)]
            term = (cn * cosm[mm] + sn * sinm[mm]) * P[(n, mm)]
            for _ in range(n + 1): term = term * qq
            spec = spec + term
    vars_ = [t, u, cl, sl, r, a, f1] + [v for l in range(L) for v in C[l] + S[l]] + [roots[k] for k in roots if not z3.is_rational_value(roots[k])]
    return paths, spec, assume, vars_, (t, u, cl, sl, r, a, f1, C, S, roots)

def ob_value(ctx, norm, L, N, nmx1=None, mmx1=None):
    paths, spec, assume, vars_, syms = run_value(ctx, norm, L, N, nmx1, mmx1)
    t, u, cl, sl, r, a, f1, C, S, roots = syms
    # translator validation against the native build at random points on the constraint surface
    lib = H.native(ctx, W); f = lib.vf_sph_value; f.restype = ctypes.c_double
    f.argtypes = [ctypes.c_int] * 5 + [ctypes.c_void_p] * 4 + [ctypes.c_double] * 5
    rnd = random.Random(ctx.get('seed', 0) + 77); nval = 0
    nm1, mm1 = (nmx1 if nmx1 is not None else N), (mmx1 if mmx1 is not None else N)
    def native_at(vals):
        th, lam, rv, av, f1v, Cv, Sv = vals
        arr = lambda xs: (ctypes.c_double * max(1, len(xs)))(*xs)
        x = rv * math.sin(th) * math.cos(lam); y = rv * math.sin(th) * math.sin(lam); z = rv * math.cos(th)
        return f(norm, L, N, nm1, mm1, arr(Cv[0]), arr(Sv[0]), arr(Cv[-1]), arr(Sv[-1]), f1v, x, y, z, av)
    def spec_at(vals):
        e = z3.simplify(z3.substitute(spec, *subst(vals)))
        return float(e.as_fraction()) if z3.is_rational_value(e) else float('nan')
    def subst(vals):
        th, lam, rv, av, f1v, Cv, Sv = vals
        sub = [(t, math.cos(th)), (u, math.sin(th)), (cl, math.cos(lam)), (sl, math.sin(lam)), (r, rv), (a, av), (f1, f1v)]
        for l in range(L):
            sub += list(zip(C[l], Cv[l])) + list(zip(S[l], Sv[l]))
        sub += [(roots[k], math.sqrt(k)) for k in roots if not z3.is_rational_value(roots[k])]
        return [(s_, z3.RealVal(repr(float(v)))) for s_, v in sub]
    def code_at(vals):
        sub = subst(vals)
        for p in paths:
            if all(z3.is_true(z3.simplify(z3.substitute(c, *sub))) for c in p.cond if not any(c is x for x in assume)):
                e = z3.simplify(z3.substitute(p.ret, *sub))
                if z3.is_rational_value(e): return float(e.as_fraction())
        return None
    # translator validation: the IR-derived symbolic value against the native build at sampled points (decides nothing about the property)
    mism = []
    for _ in range(6):
        vals = (rnd.uniform(0.3, 2.8), rnd.uniform(-3, 3), rnd.uniform(0.8, 3.0), rnd.uniform(0.5, 2.0), rnd.uniform(-2, 2),
                [[rnd.uniform(-1, 1) for _ in C[l]] for l in range(L)], [[rnd.uniform(-1, 1) for _ in S[l]] for l in range(L)])
        nv, cv = native_at(vals), code_at(vals)
        if cv is None: continue
        nval += 1
        if not H.close(nv, cv, rel=1e-9, abs_=1e-9): mism.append((nv, cv))
    if mism or nval == 0:
        return {'verdict': 'broken', 'detail': 'translator validation: IR-derived value vs native build: %r (compared %d)' % (mism[:3], nval)}
    # the solver decides: for every path, value == defining sum
    q = 0; ss = 0.0; bad = None; unk = []
    for p in paths:
        st, model, dt = rsym.prove(p.ret == spec, list(p.cond), timeout_ms=240000); q += 1; ss += dt
        if st == 'sat' and bad is None:
            mv = lambda v: float(rsym.model_value(model, v) or 0)
            vals = (math.atan2(mv(u), mv(t)), math.atan2(mv(sl), mv(cl)), mv(r), mv(a), mv(f1), [[mv(v) for v in C[l]] for l in range(L)], [[mv(v) for v in S[l]] for l in range(L)])
            cands = [vals] + [(vals[0], vals[1], vals[2], vals[3], vals[4] if vals[4] else 1.0, [[x + 0.25 * (i + 1) for i, x in enumerate(row)] for row in vals[5]], [[x + 0.125 * (i + 1) for i, x in enumerate(row)] for row in vals[6]])]
            best = None
            for cv_ in cands:
                nv, sv = native_at(cv_), spec_at(cv_)
                d = abs(nv - sv)
                if best is None or d > best[0]: best = (d, cv_, nv, sv)
            bad = {'kind': 'sph', 'norm': norm, 'L': L, 'N': N, 'nmx1': nm1, 'mmx1': mm1, 'vals': list(best[1]), 'spec': best[3],
                   'model': {str(v): str(rsym.model_value(model, v)) for v in vars_[:7]}}
        elif st == 'unknown': unk.append(len(unk))
    res = {'queries': q, 'nontrivial': q, 'solver_s': round(ss, 3), 'functions': ['GeographicLib::SphericalEngine::Value<false,%s,%d>' % ('FULL' if norm == 0 else 'SCHMIDT', L), 'GeographicLib::SphericalEngine::coeff::Cv/Sv/index'],
           'bounds': {'N = M': N, 'L': L, 'secondary truncation (nmx, mmx)': [nm1, mm1], 'paths': len(paths)}, 'validation': {'compared': nval, 'mismatches': 0}}
    if bad: res.update({'verdict': 'violated', 'detail': 'Value differs from the defining sum', 'cex': bad})
    elif unk: res.update({'verdict': 'inconclusive', 'detail': 'solver unknown on %d path(s)' % len(unk)})
    else: res['verdict'] = 'proved'
    return res

def obligations(ctx):
    obs = []
    for norm in (0, 1):
        nn = 'FULL' if norm == 0 else 'SCHMIDT'
        obs.append(Ob('Q1.Value.%s.L1.N2' % nn, (lambda ctx, norm=norm: ob_value(ctx, norm, 1, 2)), '[REAL]', 'E2 rsym+z3', 'SphericalEngine::Value<%s, 1 set> equals the defining double sum for degree/order 2 with symbolic coefficients' % nn, timeout=600, bounds={'N': 2}))
        obs.append(Ob('Q1.Value.%s.L2.N2.trunc' % nn, (lambda ctx, norm=norm: ob_value(ctx, norm, 2, 2, 1, 1)), '[REAL]', 'E2 rsym+z3',
                      'SphericalEngine::Value<%s, 2 sets>: the secondary coefficient set truncated to degree/order 1 contributes exactly its terms up to that degree (C and S), scaled by f[1]' % nn, timeout=600, bounds={'N': 2, 'secondary': 'nmx = mmx = 1'}))
    return obs

def native_value(ctx, norm, L, N, nm1, mm1, vals):
    lib = H.native(ctx, W); f = lib.vf_sph_value; f.restype = ctypes.c_double
    f.argtypes = [ctypes.c_int] * 5 + [ctypes.c_void_p] * 4 + [ctypes.c_double] * 5
    th, lam, rv, av, f1v, Cv, Sv = vals
    arr = lambda xs: (ctypes.c_double * max(1, len(xs)))(*xs)
    x = rv * math.sin(th) * math.cos(lam); y = rv * math.sin(th) * math.sin(lam); z = rv * math.cos(th)
    return f(norm, L, N, nm1, mm1, arr(Cv[0]), arr(Sv[0]), arr(Cv[-1]), arr(Sv[-1]), f1v, x, y, z, av)

def replay(rp):
    """fresh native build of the current tree; the real SphericalEngine::Value at the counterexample point against the defining sum"""
    cex = rp['cex']
    nv = native_value({}, cex['norm'], cex['L'], cex['N'], cex['nmx1'], cex['mmx1'], cex['vals'])
    bad = not H.close(nv, cex['spec'], rel=1e-9, abs_=1e-9)
    return bad, 'SphericalEngine::Value (norm=%d, L=%d, N=%d, secondary truncated to %d/%d) returns %.15g, the defining sum gives %.15g' % (cex['norm'], cex['L'], cex['N'], cex['nmx1'], cex['mmx1'], nv, cex['spec'])

MANIFEST = {
    'engine': 'E2',
    'technique': 'symbolic execution of clang IR (Clenshaw double recursion) over z3 reals with algebraic constraints for square roots and unit vectors; polynomial identity with the explicit defining sum at degree 2',
    'text': 'Bounded solver verdicts on the real code: SphericalEngine::Value (value only) for both normalisations, one coefficient set and two sets with a truncated secondary set, equals the defining spherical-harmonic double sum for degree and order 2 with fully symbolic coefficients; '
            'this exercises the packed-triangle indexing, the Cv/Sv truncation tests and the scaling.',
    'note': 'Degree/order 2 only; gradients, circles, model assembly and file readers not covered; exact-real semantics. Trusted: clang-14, vfw/irparse+rsym (validated against the native build at sampled points each run), z3.',
}
