#!/usr/bin/env python3
"""C19 — spherical harmonic sums equal their defining series (E2, small degree, symbolic coefficients)"""
import z3, ctypes, math, random
from fractions import Fraction
from vfw.run import Ob
from vfw import rsym
from harness import common as H

W = 'w_SphEng'
VAL = '@_ZN13GeographicLib15SphericalEngine5ValueILb0ELNS0_13normalizationE%dELi%dEEEdPKNS0_5coeffEPKdddddRdS8_S8_'
ASSUMPTIONS = [
    '[REAL] obligations: exact real meaning of the floating-point operations; the scaling by scale() = 2^(-614) cancels exactly over the reals; underflow/overflow behaviour and numerical stability are outside the claim',
    'degree and order N = M <= 2 with fully symbolic coefficient vectors; the square-root table holds the exact square roots (symbols r_k with r_k^2 = k); points with p = hypot(x,y) > 0 (off the polar axis) and sin(theta) above the eps clamp',
    'the defining sum: V = sum_{n<=N} sum_{m<=n} (a/r)^(n+1) (C_nm cos(m lam) + S_nm sin(m lam)) P_nm(cos theta) with fully normalised (4 pi) or Schmidt semi-normalised associated Legendre functions, written out explicitly for n <= 2',
    'MagneticModel assembly obligations: a model object with 3 epochs (+ secular-variation set, with and without a constant set), Schmidt normalisation, arbitrary _t0, _a and _dt0 > 0; the harmonic sums (SphericalEngine::Value / Circle) are opaque and return one fresh vector per coefficient set; the specification is the documented time dependence: linear interpolation between epochs, extrapolation with the secular-variation set after the last epoch, clamping before the first; the symbolic epoch index is split into its 3 values (one path each)',
    'gradient = derivative, CircularEngine = direct evaluation of the sums, GravityModel, NormalGravity and the file readers are not covered by these obligations; real model files are outside the claim',
]

def prepare(ctx):
    H.ir_module(ctx, W); H.native(ctx, W); H.ir_module(ctx, WM)

def legendre(norm, t, u, r3, r5, r15):
    """P[n][m] for n <= 2.  norm 0 = FULL (4 pi), 1 = SCHMIDT"""
    if norm == 0:
        return {(0, 0): rsym.RV(1), (1, 0): r3 * t, (1, 1): r3 * u, (2, 0): r5 * (3 * t * t - 1) / 2, (2, 1): r15 * t * u, (2, 2): r15 * u * u / 2}
    return {(0, 0): rsym.RV(1), (1, 0): t, (1, 1): u, (2, 0): (3 * t * t - 1) / 2, (2, 1): r3 * t * u, (2, 2): r3 * u * u / 2}

def csize(N, M): return (M + 1) * (2 * N - M + 2) // 2
def cidx(N, n, m): return m * N - m * (m - 1) // 2 + n          # SphericalEngine::coeff::index

def run_value(ctx, norm, L, N, nmx1=None, mmx1=None):
    m = H.ir_module(ctx, W); o = H.offsets(m, 'SphCoeff')
    t, u, cl, sl, q, a = [z3.Real(x) for x in ('t', 'u', 'cl', 'sl', 'q', 'a')]
    roots = {k: z3.Real('root%d' % k) for k in range(0, max(2 * N + 8, 20))}
    rootc = [roots[k] * roots[k] == k for k in roots] + [roots[k] >= 0 for k in roots]
    for k in (0, 1, 4, 9, 16): roots[k] = rsym.RV(int(math.isqrt(k)))
    # the point: r free > 0, z = r t, p = r u, x = p cl, y = p sl
    r = z3.Real('r'); x, y, zz = r * u * cl, r * u * sl, r * t
    C = [[z3.Real('C%d_%d' % (l, i)) for i in range(csize(N, N))] for l in range(L)]
    S = [[z3.Real('S%d_%d' % (l, i)) for i in range(csize(N, N) - (N + 1))] for l in range(L)]
    f1 = z3.Real('f1')
    nm1, mm1 = (nmx1 if nmx1 is not None else N), (mmx1 if mmx1 is not None else N)
    def hyp(ex, args, mem):
        # hypot(x, y) = p = r u ; hypot(z, p) = r  (given u, r > 0, t^2+u^2=1, cl^2+sl^2=1): recognised by argument identity
        if args[0] is x and args[1] is y: return r * u
        return r
    def mk(ex, mem):
        rt = ex.new_obj(mem, 'roottab', {8 * k: roots[k] for k in roots})
        mem['@_ZZN13GeographicLib15SphericalEngine9sqrttableEvE9sqrttable'] = {0: rsym.Ptr('roottab', 0), 8: rsym.Ptr('roottab', 8 * len(roots)), 16: rsym.Ptr('roottab', 8 * len(roots))}
        mem['@_ZGVZN13GeographicLib15SphericalEngine9sqrttableEvE9sqrttable'] = {0: 1}
        cells = {}
        for l in range(L):
            ex.new_obj(mem, 'C%d' % l, {8 * i: C[l][i] for i in range(len(C[l]))}); ex.new_obj(mem, 'S%d' % l, {8 * i: S[l][i] for i in range(len(S[l]))})
            b = 32 * l
            cells.update({b + o['_nNx']: N, b + o['_nmx']: (N if l == 0 else nm1), b + o['_mmx']: (N if l == 0 else mm1), b + o['_cCnm']: rsym.Ptr('C%d' % l, 0), b + o['_sSnm']: rsym.Ptr('S%d' % l, 0)})
        ex.new_obj(mem, 'coef', cells); ex.new_obj(mem, 'f', {0: rsym.RV(1), 8: f1}); ex.new_obj(mem, 'g')
        return [rsym.Ptr('coef', 0), rsym.Ptr('f', 0), x, y, zz, a, rsym.Ptr('g', 0), rsym.Ptr('g', 8), rsym.Ptr('g', 16)]
    assume = [t * t + u * u == 1, cl * cl + sl * sl == 1, u > Fraction(1, 1000), r > 0, a > 0] + rootc
    ex = rsym.Exec(m, libm={'hypot': hyp}, assume=assume, path_cap=16)
    paths = ex.run_all(VAL % (norm, L), mk)
    # specification
    qq = a / r
    P = legendre(norm, t, u, roots[3], roots[5], roots[15])
    cosm = {0: rsym.RV(1), 1: cl, 2: cl * cl - sl * sl}; sinm = {0: rsym.RV(0), 1: sl, 2: 2 * sl * cl}
    spec = rsym.RV(0)
    for n in range(N + 1):
        for mm in range(n + 1):
            cn = C[0][cidx(N, n, mm)]; sn = S[0][cidx(N, n, mm) - (N + 1)] if mm > 0 else rsym.RV(0)
            for l in range(1, L):
                if mm <= mm1 and n <= nm1:
                    cn = cn + f1 * C[l][cidx(N, n, mm)]
                    if mm > 0: sn = sn + f1 * S[l][cidx(N, n, mm) - (N + 1)]
            term = (cn * cosm[mm] + sn * sinm[mm]) * P[(n, mm)]
            for _ in range(n + 1): term = term * qq
            spec = spec + term
    vars_ = [t, u, cl, sl, r, a, f1] + [v for l in range(L) for v in C[l] + S[l]] + [roots[k] for k in roots if not z3.is_rational_value(roots[k])]
    return paths, spec, assume, vars_, (t, u, cl, sl, r, a, f1, C, S, roots)

def ob_value(ctx, norm, L, N, nmx1=None, mmx1=None):
    paths, spec, assume, vars_, syms = run_value(ctx, norm, L, N, nmx1, mmx1)
    t, u, cl, sl, r, a, f1, C, S, roots = syms
    # translator validation against the native build at random points on the constraint surface
    lib = H.native(ctx, W); f = lib.vf_sph_value; f.restype = ctypes.c_double
    f.argtypes = [ctypes.c_int] * 5 + [ctypes.c_void_p] * 4 + [ctypes.c_double] * 5
    rnd = random.Random(ctx.get('seed', 0) + 77); nval = 0
    nm1, mm1 = (nmx1 if nmx1 is not None else N), (mmx1 if mmx1 is not None else N)
    def native_at(vals):
        th, lam, rv, av, f1v, Cv, Sv = vals
        arr = lambda xs: (ctypes.c_double * max(1, len(xs)))(*xs)
        x = rv * math.sin(th) * math.cos(lam); y = rv * math.sin(th) * math.sin(lam); z = rv * math.cos(th)
        return f(norm, L, N, nm1, mm1, arr(Cv[0]), arr(Sv[0]), arr(Cv[-1]), arr(Sv[-1]), f1v, x, y, z, av)
    def spec_at(vals):
        e = z3.simplify(z3.substitute(spec, *subst(vals)))
        return float(e.as_fraction()) if z3.is_rational_value(e) else float('nan')
    def subst(vals):
        th, lam, rv, av, f1v, Cv, Sv = vals
        sub = [(t, math.cos(th)), (u, math.sin(th)), (cl, math.cos(lam)), (sl, math.sin(lam)), (r, rv), (a, av), (f1, f1v)]
        for l in range(L):
            sub += list(zip(C[l], Cv[l])) + list(zip(S[l], Sv[l]))
        sub += [(roots[k], math.sqrt(k)) for k in roots if not z3.is_rational_value(roots[k])]
        return [(s_, z3.RealVal(repr(float(v)))) for s_, v in sub]
    def code_at(vals):
        sub = subst(vals)
        for p in paths:
            if all(z3.is_true(z3.simplify(z3.substitute(c, *sub))) for c in p.cond if not any(c is x for x in assume)):
                e = z3.simplify(z3.substitute(p.ret, *sub))
                if z3.is_rational_value(e): return float(e.as_fraction())
        return None
    # translator validation: the IR-derived symbolic value against the native build at sampled points (decides nothing about the property)
    mism = []
    for _ in range(6):
        vals = (rnd.uniform(0.3, 2.8), rnd.uniform(-3, 3), rnd.uniform(0.8, 3.0), rnd.uniform(0.5, 2.0), rnd.uniform(-2, 2),
                [[rnd.uniform(-1, 1) for _ in C[l]] for l in range(L)], [[rnd.uniform(-1, 1) for _ in S[l]] for l in range(L)])
        nv, cv = native_at(vals), code_at(vals)
        if cv is None: continue
        nval += 1
        if not H.close(nv, cv, rel=1e-9, abs_=1e-9): mism.append((nv, cv))
    if mism or nval == 0:
        return {'verdict': 'broken', 'detail': 'translator validation: IR-derived value vs native build: %r (compared %d)' % (mism[:3], nval)}
    # the solver decides: for every path, value == defining sum
    q = 0; ss = 0.0; bad = None; unk = []
    for p in paths:
        st, model, dt = rsym.prove(p.ret == spec, list(p.cond), timeout_ms=240000); q += 1; ss += dt
        if st == 'sat' and bad is None:
            mv = lambda v: float(rsym.model_value(model, v) or 0)
            vals = (math.atan2(mv(u), mv(t)), math.atan2(mv(sl), mv(cl)), mv(r), mv(a), mv(f1), [[mv(v) for v in C[l]] for l in range(L)], [[mv(v) for v in S[l]] for l in range(L)])
            cands = [vals] + [(vals[0], vals[1], vals[2], vals[3], vals[4] if vals[4] else 1.0, [[x + 0.25 * (i + 1) for i, x in enumerate(row)] for row in vals[5]], [[x + 0.125 * (i + 1) for i, x in enumerate(row)] for row in vals[6]])]
            best = None
            for cv_ in cands:
                nv, sv = native_at(cv_), spec_at(cv_)
                d = abs(nv - sv)
                if best is None or d > best[0]: best = (d, cv_, nv, sv)
            bad = {'kind': 'sph', 'norm': norm, 'L': L, 'N': N, 'nmx1': nm1, 'mmx1': mm1, 'vals': list(best[1]), 'spec': best[3],
                   'model': {str(v): str(rsym.model_value(model, v)) for v in vars_[:7]}}
        elif st == 'unknown': unk.append(len(unk))
    res = {'queries': q, 'nontrivial': q, 'solver_s': round(ss, 3), 'functions': ['GeographicLib::SphericalEngine::Value<false,%s,%d>' % ('FULL' if norm == 0 else 'SCHMIDT', L), 'GeographicLib::SphericalEngine::coeff::Cv/Sv/index'],
           'bounds': {'N = M': N, 'L': L, 'secondary truncation (nmx, mmx)': [nm1, mm1], 'paths': len(paths)}, 'validation': {'compared': nval, 'mismatches': 0}}
    if bad: res.update({'verdict': 'violated', 'detail': 'Value differs from the defining sum', 'cex': bad})
    elif unk: res.update({'verdict': 'inconclusive', 'detail': 'solver unknown on %d path(s)' % len(unk)})
    else: res['verdict'] = 'proved'
    return res

# ---- MagneticModel: epoch selection and time interpolation/extrapolation (model assembly), harmonic sums opaque
WM = 'w_Mag'
FG = '@_ZNK13GeographicLib13MagneticModel15FieldGeocentricEddddRdS1_S1_S1_S1_S1_'; MCIRC = '@_ZNK13GeographicLib13MagneticModel6CircleEddd'
def _mag_setup(ctx, nconst):
    m = H.ir_module(ctx, WM); o = H.offsets(m, 'MagneticModel'); oh = H.offsets(m, 'SphericalHarmonic'); hs = H.sizeof(m, 'SphericalHarmonic')
    NM = 3                                  # three epochs + the secular-variation set (+ the constant set)
    cells = {}
    for off in range(0, H.sizeof(m, 'MagneticModel'), 8): cells[off] = z3.Real('Mag_%d' % off)
    cells[o['_nNmodels']] = NM; cells[o['_nNconstants']] = nconst
    nh = NM + 1 + nconst
    cells[o['_harm']] = rsym.Ptr('harm', 0); cells[o['_harm'] + 8] = rsym.Ptr('harm', hs * nh); cells[o['_harm'] + 16] = rsym.Ptr('harm', hs * nh)
    harm = {}
    for e in range(nh):
        b = e * hs
        harm.update({b + 0: 2, b + 4: 2, b + 8: 2, b + 16: rsym.Ptr('C%d' % e, 0), b + 24: rsym.Ptr('S%d' % e, 0), b + oh['_a']: z3.Real('ha%d' % e), b + oh['_norm']: 1})
    return m, o, hs, NM, cells, harm

def _idx_ok(n, NM, t1, dt0):
    """the selected epoch n is the interval containing t1 (clamped to the first / last epoch)"""
    cl = []
    if n > 0: cl.append(t1 >= n * dt0)
    if n < NM - 1: cl.append(t1 < (n + 1) * dt0)
    return z3.And(*cl) if cl else z3.BoolVal(True)

def ob_mag_direct(ctx, nconst):
    m, o, hs, NM, cells, harm = _mag_setup(ctx, nconst)
    t, X, Y, Z = [z3.Real(n) for n in ('t', 'X', 'Y', 'Z')]
    t0, dt0, a = cells[o['_t0']], cells[o['_dt0']], cells[o['_a']]
    def value(ex, a_, mem):     # gradient of the harmonic sum of set e: fresh, deterministic per set
        e = a_[0].off // hs; mem.setdefault('!sets', []).append(e)
        for p_, nm in zip(a_[6:9], 'xyz'): ex.store(mem, p_, None, z3.Real('h%d%s' % (e, nm)))
        return z3.Real('h%dv' % e)
    ex = rsym.Exec(m, opaque={VAL.replace('ILb0E', 'ILb1E') % (0, 1): value, VAL.replace('ILb0E', 'ILb1E') % (1, 1): value}, assume=[dt0 > 0, t - t0 > -(2 ** 30) * dt0, t - t0 < (2 ** 30) * dt0], path_cap=64); ex.gep_split = NM + 2
    def mk(ex, mem):
        ex.new_obj(mem, 'obj', dict(cells)); ex.new_obj(mem, 'harm', dict(harm)); ex.new_obj(mem, 'o')
        return [rsym.Ptr('obj', 0), t, X, Y, Z] + [rsym.Ptr('o', 8 * i) for i in range(6)]
    paths = ex.run_all(FG, mk)
    t1 = t - t0; q = 0; ss = 0.0; bad = None; unk = []; seen = set()
    for p in paths:
        sets = p.mem.get('!sets', []); out = p.mem['o']
        if len(sets) != 2 + nconst: unk.append('harmonic sets evaluated: %r' % sets); continue
        n = sets[0]; seen.add(n)
        claims = [('the epoch used is the one whose interval contains t (clamped at both ends)', _idx_ok(n, NM, t1, dt0)), ('the second set is the next one (next epoch, or the secular variation after the last epoch)', z3.BoolVal(sets[1] == n + 1))]
        if nconst: claims.append(('the constant set is the last one', z3.BoolVal(sets[2] == NM + 1)))
        for k, ax in enumerate('xyz'):
            h0, h1 = z3.Real('h%d%s' % (n, ax)), z3.Real('h%d%s' % (n + 1, ax)); c = z3.Real('h%d%s' % (NM + 1, ax)) if nconst else 0
            rate = (h1 - h0) / dt0 if n + 1 < NM else h1          # linear interpolation between epochs, extrapolation with the secular variation after the last
            claims.append(('B%s = -a (h_n + (t1 - n dt0) rate + const)' % ax, out[8 * k] == -a * (h0 + (t1 - n * dt0) * rate + c)))
            claims.append(('dB%s/dt = -a rate' % ax, out[8 * (k + 3)] == -a * rate))
        for nm, cl in claims:
            st, model, dt = rsym.prove(cl, list(p.cond), timeout_ms=30000); q += 1; ss += dt
            if st == 'sat' and bad is None: bad = {'kind': 'mag', 'what': 'FieldGeocentric', 'claim': nm, 'n': n}
            elif st == 'unknown': unk.append(nm)
    r = {'queries': q, 'nontrivial': q, 'solver_s': round(ss, 3), 'functions': ['GeographicLib::MagneticModel::FieldGeocentric'], 'bounds': {'epochs': NM, 'constant set': bool(nconst), 'paths': len(paths), 'epochs reached': sorted(seen)}}
    if bad: r.update({'verdict': 'violated', 'detail': 'MagneticModel::FieldGeocentric: "%s" refuted (epoch %d)' % (bad['claim'], bad['n']), 'cex': bad})
    elif unk: r.update({'verdict': 'inconclusive', 'detail': 'unknown: %r' % unk[:4]})
    elif seen != set(range(NM)): r.update({'verdict': 'inconclusive', 'detail': 'not every epoch reached: %r' % sorted(seen)})
    else: r['verdict'] = 'proved'
    return r

def ob_mag_circle(ctx, nconst):
    m, o, hs, NM, cells, harm = _mag_setup(ctx, nconst); oc = H.offsets(m, 'MagneticCircle')
    t, lat, hh = [z3.Real(n) for n in ('t', 'lat', 'h')]
    t0, dt0 = cells[o['_t0']], cells[o['_dt0']]
    from vfw.irparse import NamedT, resolve, StructT, ArrT, PtrT
    def leaves(t, base=0):
        rt = resolve(t, m); out = []
        if isinstance(rt, PtrT): return [base]
        if isinstance(rt, StructT):
            for off, e_ in zip(rt.layout(m)[0], rt.els): out += leaves(e_, base + off)
        elif isinstance(rt, ArrT):
            for i in range(rt.n): out += leaves(rt.el, base + i * rt.el.size(m))
        return out
    CE_PTRS = leaves(NamedT('%"class.GeographicLib::CircularEngine"'))
    def blank(ex, p_, mem, tag):        # an opaque CircularEngine: a tag in its first word, null heap pointers
        ex.store(mem, p_, None, tag)
        for off in CE_PTRS: ex.store(mem, rsym.Ptr(p_.obj, p_.off + off), None, rsym.Ptr(None, 0))
    def circ(ex, a_, mem):      # CircularEngine Circle(coeff*, f, p, z, a): sret a_[0]; record which coefficient set it was built from
        e = a_[1].off // hs; mem.setdefault('!sets', []).append(e); blank(ex, a_[0], mem, z3.Real('circ%d' % e)); return None
    def copyc(ex, a_, mem): blank(ex, a_[0], mem, mem[a_[1].obj].get(a_[1].off, z3.Real('circ_unknown'))); return None
    def intfwd(ex, a_, mem):
        for p_, nm in zip(a_[4:7], 'XYZ'): ex.store(mem, p_, None, z3.Real('geo' + nm))
        for i in range(9): ex.store(mem, rsym.Ptr(a_[7].obj, a_[7].off + 8 * i), None, z3.Real('M%d' % i))
        return None
    CIRC = '@_ZN13GeographicLib15SphericalEngine6CircleILb1ELNS0_13normalizationE%dELi1EEENS_14CircularEngineEPKNS0_5coeffEPKdddd'
    ex = rsym.Exec(m, opaque={CIRC % 0: circ, CIRC % 1: circ, '@_ZN13GeographicLib14CircularEngineC2ERKS0_': copyc, '@_ZN13GeographicLib14CircularEngineD2Ev': lambda ex, a_, mem: None,
                              '@_ZNK13GeographicLib10Geocentric10IntForwardEdddRdS1_S1_Pd': intfwd, '@_ZdlPv': lambda ex, a_, mem: None, '@_ZN13GeographicLib4Math3NaNIdEET_v': lambda ex, a_, mem: z3.Real('NaN')},
                    assume=[dt0 > 0, t - t0 > -(2 ** 30) * dt0, t - t0 < (2 ** 30) * dt0], path_cap=64); ex.gep_split = NM + 2
    def mk(ex, mem):
        ex.new_obj(mem, 'obj', dict(cells)); ex.new_obj(mem, 'harm', dict(harm)); ex.new_obj(mem, 'mc')
        return [rsym.Ptr('mc', 0), rsym.Ptr('obj', 0), t, lat, hh]
    paths = ex.run_all(MCIRC, mk)
    t1 = t - t0; q = 0; ss = 0.0; bad = None; unk = []; seen = set()
    for p in paths:
        sets = p.mem.get('!sets', []); mc = p.mem['mc']
        if len(sets) != 2 + nconst: unk.append('circles built: %r' % sets); continue
        n = sets[0]; seen.add(n)
        interp = mc.get(oc['_interpolate'])
        claims = [('the epoch used is the one whose interval contains t (clamped at both ends), as in direct evaluation', _idx_ok(n, NM, t1, dt0)),
                  ('the second circle is built from the next set', z3.BoolVal(sets[1] == n + 1)),
                  ('time offset within the epoch', mc[oc['_t1']] == t1 - n * dt0), ('epoch spacing', mc[oc['_dt0']] == dt0),
                  ('interpolate between epochs, extrapolate with the secular variation after the last', z3.BoolVal((interp & 1) == (1 if n + 1 < NM else 0)) if isinstance(interp, int) else (interp == (n + 1 < NM)))]
        if nconst: claims.append(('the constant circle is built from the last set', z3.BoolVal(sets[2] == NM + 1)))
        for nm, cl in claims:
            st, model, dt = rsym.prove(cl, list(p.cond), timeout_ms=30000); q += 1; ss += dt
            if st == 'sat' and bad is None: bad = {'kind': 'mag', 'what': 'Circle', 'claim': nm, 'n': n}
            elif st == 'unknown': unk.append(nm)
    r = {'queries': q, 'nontrivial': q, 'solver_s': round(ss, 3), 'functions': ['GeographicLib::MagneticModel::Circle'], 'bounds': {'epochs': NM, 'constant set': bool(nconst), 'paths': len(paths), 'epochs reached': sorted(seen)}}
    if bad: r.update({'verdict': 'violated', 'detail': 'MagneticModel::Circle: "%s" refuted (epoch %d)' % (bad['claim'], bad['n']), 'cex': bad})
    elif unk: r.update({'verdict': 'inconclusive', 'detail': 'unknown: %r' % unk[:4]})
    elif seen != set(range(NM)): r.update({'verdict': 'inconclusive', 'detail': 'not every epoch reached: %r' % sorted(seen)})
    else: r['verdict'] = 'proved'
    return r

def ob_mag_timeindex(ctx):
    """the float -> int conversion of the epoch number is in range for EVERY time (no undefined behaviour for huge times)"""
    res = {'queries': 0, 'nontrivial': 0, 'solver_s': 0.0, 'functions': ['GeographicLib::MagneticModel::FieldGeocentric', 'GeographicLib::MagneticModel::Circle'], 'bounds': {'t': 'all reals (NaN and infinities are replayed concretely only)', 'epochs': 3}}
    bad = None; unk = []; nob = 0
    for what in ('FieldGeocentric', 'Circle'):
        m, o, hs, NM, cells, harm = _mag_setup(ctx, 0)
        t = z3.Real('t'); t0, dt0 = cells[o['_t0']], cells[o['_dt0']]
        obl = []
        class _Stop(Exception): pass
        def stop(ex, a_, mem): obl.extend(ex.cur.oblig); raise rsym.Cut()
        CIRC = '@_ZN13GeographicLib15SphericalEngine6CircleILb1ELNS0_13normalizationE%dELi1EEENS_14CircularEngineEPKNS0_5coeffEPKdddd'
        opq = {VAL.replace('ILb0E', 'ILb1E') % (0, 1): stop, VAL.replace('ILb0E', 'ILb1E') % (1, 1): stop, CIRC % 0: stop, CIRC % 1: stop,
               '@_ZNK13GeographicLib10Geocentric10IntForwardEdddRdS1_S1_Pd': lambda ex, a_, mem: ([ex.store(mem, p_, None, z3.Real('g')) for p_ in a_[4:7]], [ex.store(mem, rsym.Ptr(a_[7].obj, a_[7].off + 8 * i), None, z3.Real('M%d' % i)) for i in range(9)], None)[2], '@_ZN13GeographicLib4Math3NaNIdEET_v': lambda ex, a_, mem: z3.Real('NaN')}
        ex = rsym.Exec(m, opaque=opq, assume=[dt0 > 0], path_cap=64); ex.gep_split = NM + 2
        if what == 'FieldGeocentric':
            mk = lambda ex, mem: [ex.new_obj(mem, 'obj', dict(cells)), t] + [z3.Real(n) for n in 'XYZ'] + [rsym.Ptr(ex.new_obj(mem, 'o').obj, 8 * i) for i in range(6)] if not ex.new_obj(mem, 'harm', dict(harm)) is None else None
            ex.run_all(FG, mk)
        else:
            def mk2(ex, mem): ex.new_obj(mem, 'obj', dict(cells)); ex.new_obj(mem, 'harm', dict(harm)); ex.new_obj(mem, 'mc'); return [rsym.Ptr('mc', 0), rsym.Ptr('obj', 0), t, z3.Real('lat'), z3.Real('h')]
            ex.run_all(MCIRC, mk2)
        seen = set()
        for nm, claim, cond in obl:
            key = (nm, claim.sexpr() if hasattr(claim, 'sexpr') else str(claim))
            if key in seen or 'float->int' not in nm: continue
            seen.add(key); nob += 1
            st, model, dt = rsym.prove(claim, cond, timeout_ms=30000); res['queries'] += 1; res['solver_s'] += dt
            if st == 'sat' and bad is None:
                tv = rsym.model_value(model, t); bad = {'kind': 'magtime', 'what': what, 'claim': nm, 't': str(tv), 't0': str(rsym.model_value(model, t0)), 'dt0': str(rsym.model_value(model, dt0))}
            elif st == 'unknown': unk.append(nm)
    res['nontrivial'] = res['queries']; res['solver_s'] = round(res['solver_s'], 3); res['bounds']['conversions checked'] = nob
    if bad: res.update({'verdict': 'violated', 'detail': 'MagneticModel::%s: %s is not implied by the path condition: the epoch number floor((t - t0)/dt0) is converted to int before it is clamped (undefined behaviour for |t| large), e.g. (t - t0)/dt0 with t = %s, t0 = %s, dt0 = %s' % (bad['what'], bad['claim'], bad['t'], bad['t0'], bad['dt0']), 'cex': bad})
    elif unk: res.update({'verdict': 'inconclusive', 'detail': 'unknown: %r' % unk[:3]})
    elif nob == 0: res.update({'verdict': 'inconclusive', 'detail': 'no float->int conversion was reached'})
    else: res['verdict'] = 'proved'
    return res

def replay_magtime(cex):
    """real code under UBSan (float-cast-overflow): the synthetic model evaluated at t = 1e300, -1e300, inf, nan"""
    import subprocess, tempfile, shutil, os
    from vfw import build
    sc = build.scratch(); lib = build.full_lib_so(sanitize=True)
    src = os.path.join(sc, 'magtime_main.cpp'); exe = os.path.join(sc, 'magtime')
    open(src, 'w').write('#include <cstdio>\n#include <cstdlib>\n#include <cmath>\nextern "C" double vf_mag_time(const char*, double);\nint main(int c, char** v) { double t = std::strtod(v[2], 0); double r = vf_mag_time(v[1], t); std::printf("t=%g r=%g\\n", t, r); return 0; }\n')
    r = subprocess.run(['g++', '-std=c++14', '-O1', '-g', '-w', '-fno-access-control', '-DNDEBUG'] + build.SAN + build.incflags() + [src, build.wrapper(WM), lib, '-Wl,-rpath,' + os.path.dirname(lib), '-o', exe], capture_output=True, text=True)
    if r.returncode: return None, 'replay program did not build: ' + r.stderr[-800:]
    msgs = []
    for tv in ('1e300', '-1e300', 'inf', 'nan'):
        d = tempfile.mkdtemp(prefix='vfmag-')
        try: p = subprocess.run([exe, d, tv], capture_output=True, text=True, timeout=120, env=dict(os.environ, ASAN_OPTIONS='detect_leaks=0', UBSAN_OPTIONS='print_stacktrace=0'))
        finally: shutil.rmtree(d, ignore_errors=True)
        err = [l.strip() for l in p.stderr.split('\n') if 'runtime error' in l]
        if err: msgs.append('t = %s: %s' % (tv, err[0][-220:]))
    return bool(msgs), 'MagneticModel evaluated on the real code under UBSan: ' + ('; '.join(msgs) if msgs else 'no runtime error at t = 1e300, -1e300, inf, nan')

def obligations(ctx):
    obs = []
    for norm in (0, 1):
        nn = 'FULL' if norm == 0 else 'SCHMIDT'
        obs.append(Ob('Q1.Value.%s.L1.N2' % nn, (lambda ctx, norm=norm: ob_value(ctx, norm, 1, 2)), '[REAL]', 'E2 rsym+z3', 'SphericalEngine::Value<%s, 1 set> equals the defining double sum for degree/order 2 with symbolic coefficients' % nn, timeout=600, bounds={'N': 2}))
        obs.append(Ob('Q1.Value.%s.L2.N2.trunc' % nn, (lambda ctx, norm=norm: ob_value(ctx, norm, 2, 2, 1, 1)), '[REAL]', 'E2 rsym+z3',
                      'SphericalEngine::Value<%s, 2 sets>: the secondary coefficient set truncated to degree/order 1 contributes exactly its terms up to that degree (C and S), scaled by f[1]' % nn, timeout=600, bounds={'N': 2, 'secondary': 'nmx = mmx = 1'}))
    for nc in (0, 1):
        obs.append(Ob('Q2.MagneticModel.FieldGeocentric.const%d' % nc, (lambda ctx, nc=nc: ob_mag_direct(ctx, nc)), '[REAL]', 'E2 rsym+z3', 'MagneticModel::FieldGeocentric: epoch selection, linear interpolation between epochs, extrapolation with the secular-variation set, constant term, factor -a', timeout=600, bounds={'epochs': 3}))
        obs.append(Ob('Q3.MagneticModel.Circle.const%d' % nc, (lambda ctx, nc=nc: ob_mag_circle(ctx, nc)), '[REAL]', 'E2 rsym+z3', 'MagneticModel::Circle builds its circles from the same epoch sets, time offset and interpolation flag as direct evaluation', timeout=600, bounds={'epochs': 3}))
    obs.append(Ob('Q4.MagneticModel.time-index-conversion', ob_mag_timeindex, '[REAL] + range obligations', 'E2 rsym+z3', 'MagneticModel::FieldGeocentric and Circle: the conversion of the epoch number to int is in range for every time t (no undefined behaviour)', timeout=600))
    return obs

def native_value(ctx, norm, L, N, nm1, mm1, vals):
    lib = H.native(ctx, W); f = lib.vf_sph_value; f.restype = ctypes.c_double
    f.argtypes = [ctypes.c_int] * 5 + [ctypes.c_void_p] * 4 + [ctypes.c_double] * 5
    th, lam, rv, av, f1v, Cv, Sv = vals
    arr = lambda xs: (ctypes.c_double * max(1, len(xs)))(*xs)
    x = rv * math.sin(th) * math.cos(lam); y = rv * math.sin(th) * math.sin(lam); z = rv * math.cos(th)
    return f(norm, L, N, nm1, mm1, arr(Cv[0]), arr(Sv[0]), arr(Cv[-1]), arr(Sv[-1]), f1v, x, y, z, av)

def replay_mag(cex):
    """real code: a synthetic 3-epoch degree-1 model written to a scratch directory, direct evaluation and Circle against the field implied by the coefficients"""
    import ctypes
    lib = H.native({}, WM); f = lib.vf_mag_check; f.restype = ctypes.c_double; f.argtypes = [ctypes.c_char_p]
    import tempfile, shutil
    d = tempfile.mkdtemp(prefix='vfmag-')
    try: dev = f(d.encode())
    finally: shutil.rmtree(d, ignore_errors=True)
    return dev > 1e-6, 'MagneticModel (synthetic 3-epoch model, times before, between and after the epochs): largest deviation of direct evaluation / Circle from the field implied by the coefficients: %.3g nT' % dev

def replay(rp):
    """fresh native build of the current tree; the real SphericalEngine::Value at the counterexample point against the defining sum"""
    cex = rp['cex']
    if cex.get('kind') == 'mag': return replay_mag(cex)
    if cex.get('kind') == 'magtime': return replay_magtime(cex)
    nv = native_value({}, cex['norm'], cex['L'], cex['N'], cex['nmx1'], cex['mmx1'], cex['vals'])
    bad = not H.close(nv, cex['spec'], rel=1e-9, abs_=1e-9)
    return bad, 'SphericalEngine::Value (norm=%d, L=%d, N=%d, secondary truncated to %d/%d) returns %.15g, the defining sum gives %.15g' % (cex['norm'], cex['L'], cex['N'], cex['nmx1'], cex['mmx1'], nv, cex['spec'])

MANIFEST = {
    'engine': 'E2',
    'technique': 'symbolic execution of clang IR (Clenshaw double recursion) over z3 reals with algebraic constraints for square roots and unit vectors; polynomial identity with the explicit defining sum at degree 2',
    'text': 'Bounded solver verdicts on the real code: SphericalEngine::Value (value only) for both normalisations, one coefficient set and two sets with a truncated secondary set, equals the defining spherical-harmonic double sum for degree and order 2 with fully symbolic coefficients; '
            'this exercises the packed-triangle indexing, the Cv/Sv truncation tests and the scaling. MagneticModel::FieldGeocentric and Circle select the epoch containing t, interpolate/extrapolate in time as documented, '
            'use the same sets for circles as for direct evaluation, and convert the epoch number to int only after clamping (no UB for any t).',
    'note': 'Harmonic sums at degree/order 2 only; gradients, CircularEngine sums, gravity models and file readers not covered; exact-real semantics. Trusted: clang-14, vfw/irparse+rsym (validated against the native build at sampled points each run), z3.',
}
