#!/usr/bin/env python3
"""C17 — constructions built on geodesics: projection shells (E2, geodesic solver opaque), intersection bookkeeping (E2 + E1),
nearest-neighbour search against brute force on symbolic metrics (E1)"""
import z3, ctypes, os
from fractions import Fraction
from vfw.run import Ob
from vfw import rsym, e1
from harness import common as H

W = 'w_GeodProj'
AEF = '@_ZNK13GeographicLib20AzimuthalEquidistant7ForwardEddddRdS1_S1_S1_'
AER = '@_ZNK13GeographicLib20AzimuthalEquidistant7ReverseEddddRdS1_S1_S1_'
GNF = '@_ZNK13GeographicLib8Gnomonic7ForwardEddddRdS1_S1_S1_'
GNR = '@_ZNK13GeographicLib8Gnomonic7ReverseEddddRdS1_S1_S1_'
CSF = '@_ZNK13GeographicLib14CassiniSoldner7ForwardEddRdS1_S1_S1_'
CSR = '@_ZNK13GeographicLib14CassiniSoldner7ReverseEddRdS1_S1_S1_'
GENINV = '@_ZNK13GeographicLib8Geodesic10GenInverseEddddjRdS1_S1_S1_S1_S1_S1_'
GENDIR = '@_ZNK13GeographicLib8Geodesic9GenDirectEdddbdjRdS1_S1_S1_S1_S1_S1_S1_'
GENPOS = '@_ZNK13GeographicLib12GeodesicLine11GenPositionEbdjRdS1_S1_S1_S1_S1_S1_S1_'
LINE = '@_ZNK13GeographicLib8Geodesic4LineEdddj'
SINCOSD = '@_ZN13GeographicLib4Math7sincosdIdEEvT_RS2_S3_'
ATAN2D = '@_ZN13GeographicLib4Math6atan2dIdEET_S2_S2_'
ANGDIFF = '@_ZN13GeographicLib4Math7AngDiffIdEET_S2_S2_RS2_'
ANGNORM = '@_ZN13GeographicLib4Math12AngNormalizeIdEET_S2_'
NAN = '@_ZN13GeographicLib4Math3NaNIdEET_v'
FIXC = '@_ZN13GeographicLib9Intersect13fixcoincidentERKNS0_6XPointES3_i'
FIXS = '@_ZN13GeographicLib9Intersect10fixsegmentEddRKNS0_6XPointE'
CAPN = ['LATITUDE', 'LONGITUDE', 'AZIMUTH', 'DISTANCE', 'DISTANCE_IN', 'REDUCEDLENGTH', 'GEODESICSCALE', 'AREA']
ASSUMPTIONS = [
    '[REAL] obligations: exact real meaning of the floating-point operations; rounding, overflow and NaN propagation are outside those obligations',
    'projection shells: Geodesic::GenInverse, GenDirect, Line and GeodesicLine::GenPosition are opaque (arbitrary results); the claim is about what the projection code passes to and does with the geodesic solver, whose own correctness is the subject of C02/C03/C12',
    'Math::sincosd, atan2d, AngDiff, AngNormalize opaque with sin^2+cos^2 = 1',
    'Gnomonic::Reverse: Newton update checked against s - (rho(s) - rho)/rho\'(s) with rho = m12/M12, rho\' = 1/M12^2 (and the reciprocal form beyond rho = a) for runs converging in at most 4 iterations; convergence itself is outside the claim',
    'Intersect: only the static helpers fixcoincident and fixsegment are decided (they move a coincident intersection along its coincidence line to the documented place). The search routines (Closest/Next/Segment/All tilings, Newton refinement, conjugate points) and NearestNeighbor are NOT covered: bounded model checking of NextInt/ClosestInt with the refinement as an environment stub and of NearestNeighbor::Search on symbolic 2-3 point trees was built and did not reach a verdict within 30-90 minutes and 6-65 GB (see DESIGN.md), so no claim is made for them',
]

def caps(ctx):
    lib = H.native(ctx, W); a = (ctypes.c_uint * 8).in_dll(lib, 'vf_caps'); return dict(zip(CAPN, list(a)))

def prepare(ctx):
    H.ir_module(ctx, W); H.native(ctx, W)

def sym_obj(ex, mem, m, cls, name='obj', fixed=None):
    size = H.sizeof(m, cls); cells = {}
    for off in range(0, size, 8): cells[off] = z3.Real('%s_%d' % (cls[:3], off))
    cells.update(fixed or {})
    return ex.new_obj(mem, name, cells), cells

def rec(mem): return mem.setdefault('!rec', {'calls': []})['calls']

def geod_stubs(pre=''):
    """environment stubs for the geodesic solver; each call is recorded in the path's memory"""
    def geninv(ex, a, mem):
        n = len([c for c in rec(mem) if c[0] == 'inv'])
        out = {k: z3.Real('%sinv%d_%s' % (pre, n, k)) for k in ('s12', 'salp1', 'calp1', 'salp2', 'calp2', 'm12', 'M12', 'M21', 'S12', 'a12')}
        raise AssertionError
    return None

def outsyms(tag, n, names): return {k: z3.Real('%s%d_%s' % (tag, n, k)) for k in names}

def st_geninverse(ex, a, mem):
    # real GenInverse(lat1, lon1, lat2, lon2, outmask, &s12, &azi1, &azi2, &m12, &M12, &M21, &S12) const -> a12   (a[0] = this)
    calls = rec(mem); n = len([c for c in calls if c[0] == 'inv'])
    o = outsyms('inv', n, ('s12', 'azi1', 'azi2', 'm12', 'M12', 'M21', 'S12', 'a12'))
    for k, p in zip(('s12', 'azi1', 'azi2', 'm12', 'M12', 'M21', 'S12'), a[6:13]): ex.store(mem, p, None, o[k])
    calls.append(('inv', a[1:6], o, a[6:13])); return o['a12']
def st_gendirect(ex, a, mem):
    # real GenDirect(lat1, lon1, azi1, arcmode, s12_a12, outmask, &lat2, &lon2, &azi2, &s12, &m12, &M12, &M21, &S12) const -> a12
    calls = rec(mem); n = len([c for c in calls if c[0] == 'dir'])
    o = outsyms('dir', n, ('lat2', 'lon2', 'azi2', 's12', 'm12', 'M12', 'M21', 'S12', 'a12'))
    for k, p in zip(('lat2', 'lon2', 'azi2', 's12', 'm12', 'M12', 'M21', 'S12'), a[7:15]): ex.store(mem, p, None, o[k])
    calls.append(('dir', a[1:7], o, a[7:15])); return o['a12']
def st_genposition(ex, a, mem):
    # real GenPosition(arcmode, s12_a12, outmask, &lat2, &lon2, &azi2, &s12, &m12, &M12, &M21, &S12) const -> a12  (a[0] = line)
    calls = rec(mem); n = len([c for c in calls if c[0] == 'pos'])
    o = outsyms('pos', n, ('lat2', 'lon2', 'azi2', 's12', 'm12', 'M12', 'M21', 'S12', 'a12'))
    for k, p in zip(('lat2', 'lon2', 'azi2', 's12', 'm12', 'M12', 'M21', 'S12'), a[4:12]): ex.store(mem, p, None, o[k])
    calls.append(('pos', a[0:4], o, a[4:12])); return o['a12']
def ptr_leaves(m, t, base=0):
    from vfw.irparse import resolve, StructT, ArrT, PtrT
    rt = resolve(t, m); out = []
    if isinstance(rt, PtrT): return [base]
    if isinstance(rt, StructT):
        for off, e in zip(rt.layout(m)[0], rt.els): out += ptr_leaves(m, e, base + off)
    elif isinstance(rt, ArrT):
        for i in range(rt.n): out += ptr_leaves(m, rt.el, base + i * rt.el.size(m))
    return out
def st_line(ex, a, mem):
    # GeodesicLine Line(lat1, lon1, azi1, caps) const, sret in a[0], this in a[1]; the object is opaque except that its heap pointers are null
    from vfw.irparse import NamedT
    for off in ptr_leaves(ex.m, NamedT('%"class.GeographicLib::GeodesicLine"')): ex.store(mem, rsym.Ptr(a[0].obj, a[0].off + off), None, rsym.Ptr(None, 0))
    rec(mem).append(('line', a[2:6], a[0])); return None
def st_sincosd(ex, a, mem):
    calls = rec(mem); n = len([c for c in calls if c[0] == 'sc'])
    sn, cs = z3.Real('sn%d' % n), z3.Real('cs%d' % n)
    ex.cur.cond.append(sn * sn + cs * cs == 1)
    ex.store(mem, a[1], None, sn); ex.store(mem, a[2], None, cs); calls.append(('sc', a[0], sn, cs)); return None
def st_atan2d(ex, a, mem):
    calls = rec(mem); n = len([c for c in calls if c[0] == 'at']); r = z3.Real('atan2d%d' % n); calls.append(('at', a[0], a[1], r)); return r
NANSYM = z3.Real('NaN')
STUBS = {GENINV: st_geninverse, GENDIR: st_gendirect, GENPOS: st_genposition, LINE: st_line, SINCOSD: st_sincosd, ATAN2D: st_atan2d, NAN: lambda ex, a, mem: NANSYM,
         ANGDIFF: lambda ex, a, mem: (ex.store(mem, a[2], None, z3.Real('angdiff_e')), z3.Real('angdiff'))[1],
         ANGNORM: lambda ex, a, mem: (rec(mem).append(('an', a[0])), z3.Real('angnorm'))[1],
         '@_ZdlPv': lambda ex, a, mem: None}

def same(a, b):
    if isinstance(a, rsym.Ptr) or isinstance(b, rsym.Ptr): return isinstance(a, rsym.Ptr) and isinstance(b, rsym.Ptr) and a.obj == b.obj and a.off == b.off
    return a == b

def run_claims(paths, mkclaims, functions, bounds, what):
    """mkclaims(path) -> [(name, z3 bool | python bool)]; the solver decides each claim under the path condition"""
    q = 0; ss = 0.0; bad = None; unk = []; nclaims = 0
    for p in paths:
        for nm, cl in mkclaims(p):
            nclaims += 1
            if isinstance(cl, bool):
                if not cl and bad is None: bad = {'kind': 'shell', 'claim': nm, 'what': what}
                continue
            st, model, dt = rsym.prove(cl, list(p.cond), timeout_ms=60000); q += 1; ss += dt
            if st == 'sat' and bad is None: bad = {'kind': 'shell', 'claim': nm, 'what': what, 'model': str(model)[:600]}
            elif st == 'unknown': unk.append(nm)
    r = {'queries': q, 'nontrivial': q, 'solver_s': round(ss, 3), 'functions': functions, 'bounds': dict(bounds, paths=len(paths), claims=nclaims)}
    if bad: r.update({'verdict': 'violated', 'detail': '%s: claim "%s" refuted' % (what, bad['claim']), 'cex': bad})
    elif unk: r.update({'verdict': 'inconclusive', 'detail': 'solver unknown on %r' % unk[:4]})
    elif nclaims == 0: r.update({'verdict': 'inconclusive', 'detail': 'no claims generated'})
    else: r['verdict'] = 'proved'
    return r

def has(mask, cp, names): return all((mask & cp[n]) == cp[n] for n in names)

def ob_ae_forward(ctx):
    m = H.ir_module(ctx, W); o = H.offsets(m, 'AzimuthalEquidistant'); cp = caps(ctx)
    lat0, lon0, lat, lon = [z3.Real(x) for x in ('lat0', 'lon0', 'lat', 'lon')]
    def mk(ex, mem):
        ptr, cells = sym_obj(ex, mem, m, 'AzimuthalEquidistant'); ex.new_obj(mem, 'o')
        return [ptr, lat0, lon0, lat, lon, rsym.Ptr('o', 0), rsym.Ptr('o', 8), rsym.Ptr('o', 16), rsym.Ptr('o', 24)]
    ex = rsym.Exec(m, opaque=STUBS, assume=[z3.Real('Azi_%d' % o['eps_']) > 0])
    paths = ex.run_all(AEF, mk)
    eps = z3.Real('Azi_%d' % o['eps_'])
    def claims(p):
        calls = rec(p.mem); inv = [c for c in calls if c[0] == 'inv']; sc = [c for c in calls if c[0] == 'sc']; out = p.mem['o']
        cl = [('exactly one inverse problem, from the centre to the point', len(inv) == 1 and all(same(x, y) for x, y in zip(inv[0][1][:4], [lat0, lon0, lat, lon]))),
              ('inverse asked for distance, azimuth and reduced length', len(inv) == 1 and isinstance(inv[0][1][4], int) and has(inv[0][1][4], cp, ['DISTANCE', 'AZIMUTH', 'REDUCEDLENGTH']))]
        if len(inv) != 1 or len(sc) != 1: return cl + [('one sincosd call', False)]
        g = inv[0][2]; _, arg, sn, cs = sc[0]
        cl += [('direction is the azimuth at the centre', arg == g['azi1']), ('x = s12 sin(azi0)', out[0] == g['s12'] * sn), ('y = s12 cos(azi0)', out[8] == g['s12'] * cs),
               ('point placed at its geodesic distance', out[0] * out[0] + out[8] * out[8] == g['s12'] * g['s12']),
               ('azi is the forward azimuth at the point', out[16] == g['azi2']),
               ('rk = m12/s12 away from the centre', z3.Implies(z3.And(g['a12'] > eps, g['s12'] != 0), out[24] * g['s12'] == g['m12'])), ('rk = 1 at the centre', z3.Implies(g['a12'] <= eps, out[24] == 1))]
        return cl
    return run_claims(paths, claims, ['GeographicLib::AzimuthalEquidistant::Forward'], {'object': 'arbitrary members', 'inputs': 'all reals'}, 'AzimuthalEquidistant::Forward')

def ob_ae_reverse(ctx):
    m = H.ir_module(ctx, W); o = H.offsets(m, 'AzimuthalEquidistant'); cp = caps(ctx)
    lat0, lon0, x, y = [z3.Real(n) for n in ('lat0', 'lon0', 'x', 'y')]
    def mk(ex, mem):
        ptr, cells = sym_obj(ex, mem, m, 'AzimuthalEquidistant'); ex.new_obj(mem, 'o')
        return [ptr, lat0, lon0, x, y, rsym.Ptr('o', 0), rsym.Ptr('o', 8), rsym.Ptr('o', 16), rsym.Ptr('o', 24)]
    eps = z3.Real('Azi_%d' % o['eps_'])
    ex = rsym.Exec(m, opaque=STUBS, assume=[eps > 0])
    paths = ex.run_all(AER, mk)
    def claims(p):
        calls = rec(p.mem); d = [c for c in calls if c[0] == 'dir']; at = [c for c in calls if c[0] == 'at']; out = p.mem['o']
        if len(d) != 1 or len(at) != 1: return [('one direct problem and one atan2d', False)]
        a = d[0][1]; g = d[0][2]
        return [('direct problem starts at the centre', same(a[0], lat0) and same(a[1], lon0)), ('azimuth = atan2d(x, y) (clockwise from north)', same(at[0][1], x) and same(at[0][2], y)),
                ('direct azimuth argument is that azimuth', a[2] == at[0][3]), ('distance mode, not arc mode', a[3] == 0),
                ('distance = hypot(x, y)', z3.And(a[4] >= 0, a[4] * a[4] == x * x + y * y)),
                ('direct asked for position, azimuth and reduced length', isinstance(a[5], int) and has(a[5], cp, ['LATITUDE', 'LONGITUDE', 'AZIMUTH', 'REDUCEDLENGTH'])),
                ('lat, lon, azi are those of the geodesic end point', z3.And(out[0] == g['lat2'], out[8] == g['lon2'], out[16] == g['azi2'])),
                ('rk = m12/s', z3.Implies(z3.And(g['a12'] > eps, a[4] != 0), out[24] * a[4] == g['m12']))]
    return run_claims(paths, claims, ['GeographicLib::AzimuthalEquidistant::Reverse'], {'object': 'arbitrary members', 'inputs': 'all reals'}, 'AzimuthalEquidistant::Reverse')

def ob_gn_forward(ctx):
    m = H.ir_module(ctx, W); cp = caps(ctx)
    lat0, lon0, lat, lon = [z3.Real(x) for x in ('lat0', 'lon0', 'lat', 'lon')]
    def mk(ex, mem):
        ptr, cells = sym_obj(ex, mem, m, 'Gnomonic'); ex.new_obj(mem, 'o')
        return [ptr, lat0, lon0, lat, lon, rsym.Ptr('o', 0), rsym.Ptr('o', 8), rsym.Ptr('o', 16), rsym.Ptr('o', 24)]
    ex = rsym.Exec(m, opaque=STUBS)
    paths = ex.run_all(GNF, mk)
    def claims(p):
        calls = rec(p.mem); inv = [c for c in calls if c[0] == 'inv']; sc = [c for c in calls if c[0] == 'sc']; out = p.mem['o']
        if len(inv) != 1: return [('one inverse problem', False)]
        g = inv[0][2]
        cl = [('inverse problem from the centre to the point', all(same(a, b) for a, b in zip(inv[0][1][:4], [lat0, lon0, lat, lon]))),
              ('inverse asked for azimuth, reduced length and geodesic scale', isinstance(inv[0][1][4], int) and has(inv[0][1][4], cp, ['AZIMUTH', 'REDUCEDLENGTH', 'GEODESICSCALE'])),
              ('rk = M12', out[24] == g['M12']), ('azi is the forward azimuth at the point', out[16] == g['azi2'])]
        if len(sc) == 1:
            _, arg, sn, cs = sc[0]
            cl += [('within the horizon on this path', g['M12'] > 0), ('direction is the azimuth at the centre', arg == g['azi1']),
                   ('x = (m12/M12) sin(azi0)', out[0] * g['M12'] == g['m12'] * sn), ('y = (m12/M12) cos(azi0)', out[8] * g['M12'] == g['m12'] * cs)]
        else:
            cl += [('beyond the horizon on this path', g['M12'] <= 0), ('x and y are NaN beyond the horizon', z3.And(out[0] == NANSYM, out[8] == NANSYM))]
        return cl
    r = run_claims(paths, claims, ['GeographicLib::Gnomonic::Forward'], {'object': 'arbitrary members', 'inputs': 'all reals'}, 'Gnomonic::Forward')
    if r['verdict'] == 'proved' and len(paths) < 2: r.update({'verdict': 'inconclusive', 'detail': 'expected both horizon branches'})
    return r

def ob_gn_reverse(ctx):
    m = H.ir_module(ctx, W); o = H.offsets(m, 'Gnomonic'); cp = caps(ctx)
    lat0, lon0, x, y = [z3.Real(n) for n in ('lat0', 'lon0', 'x', 'y')]
    a_ = z3.Real('Gno_%d' % o['_a']); eps = z3.Real('Gno_%d' % o['eps_'])
    MAXIT = 4
    def mk(ex, mem):
        ptr, cells = sym_obj(ex, mem, m, 'Gnomonic'); ex.new_obj(mem, 'o')
        return [ptr, lat0, lon0, x, y, rsym.Ptr('o', 0), rsym.Ptr('o', 8), rsym.Ptr('o', 16), rsym.Ptr('o', 24)]
    def pos(ex, a, mem):
        if len([c for c in rec(mem) if c[0] == 'pos']) >= MAXIT: raise rsym.Cut()      # bound: runs with at most MAXIT Position calls
        return st_genposition(ex, a, mem)
    ex = rsym.Exec(m, opaque=dict(STUBS, **{GENPOS: pos}), libm={'atan': lambda ex, a, mem: z3.Real('atan_init')}, assume=[a_ > 0, eps > 0], path_cap=64)
    paths = ex.run_all(GNR, mk)
    def claims(p):
        calls = rec(p.mem); ps = [c for c in calls if c[0] == 'pos']; ln = [c for c in calls if c[0] == 'line']; at = [c for c in calls if c[0] == 'at']; out = p.mem['o']
        if len(ln) != 1 or len(at) != 1 or not ps: return [('one line, one atan2d, some positions', False)]
        rho = z3.Real('rho_spec')
        pre = [rho >= 0, rho * rho == x * x + y * y]
        cl = [('line starts at the centre with azimuth atan2d(x, y)', same(ln[0][1][0], lat0) and same(ln[0][1][1], lon0) and same(at[0][1], x) and same(at[0][2], y)),
              ('line azimuth is that azimuth', ln[0][1][2] == at[0][3]),
              ('line can do position, azimuth, distance input, reduced length, scale', isinstance(ln[0][1][3], int) and has(ln[0][1][3], cp, ['LATITUDE', 'LONGITUDE', 'AZIMUTH', 'DISTANCE_IN', 'REDUCEDLENGTH', 'GEODESICSCALE']))]
        for k in range(len(ps)):
            cl.append(('position %d evaluated on that line in distance mode' % k, same(ps[k][1][0], ln[0][2]) and ps[k][1][1] == 0))
        for k in range(len(ps) - 1):
            s0, s1 = ps[k][1][2], ps[k + 1][1][2]; g = ps[k][2]
            # Newton on rho(s) = m/M with rho' = 1/M^2  (rho <= a), on 1/rho(s) = M/m with derivative -1/m^2 (rho > a)
            cl.append(('Newton step %d (rho <= a)' % k, z3.Implies(z3.And(*pre, rho <= a_, g['M12'] != 0), s1 == s0 - (g['m12'] / g['M12'] - rho) * g['M12'] * g['M12'])))
            cl.append(('Newton step %d (rho > a)' % k, z3.Implies(z3.And(*pre, rho > a_, g['m12'] != 0), s1 == s0 + (g['M12'] / g['m12'] - 1 / rho) * g['m12'] * g['m12'])))
        g = ps[-1][2]
        conv = z3.And(out[0] == g['lat2'], out[8] == g['lon2'], out[16] == g['azi2'], out[24] == g['M12'])
        fail = z3.And(out[0] == NANSYM, out[8] == NANSYM, out[16] == NANSYM, out[24] == NANSYM)
        cl.append(('result is the last evaluated position (or NaN on convergence failure)', z3.Or(conv, fail)))
        if len(ps) >= 2:
            g0 = ps[-2][2]; ds = ps[-2][1][2] - ps[-1][1][2]
            cl.append(('a returned position follows a step below the tolerance', z3.Implies(conv, z3.And(ds < eps * a_, -ds < eps * a_))))
        return cl
    r = run_claims(paths, claims, ['GeographicLib::Gnomonic::Reverse'], {'Newton iterations': '<= %d Position calls' % MAXIT}, 'Gnomonic::Reverse')
    return r

def ob_cs_reverse(ctx):
    m = H.ir_module(ctx, W); o = H.offsets(m, 'CassiniSoldner'); og = H.offsets(m, 'GeodesicLine'); cp = caps(ctx)
    x, y = z3.Real('x'), z3.Real('y')
    def mk(ex, mem):
        ptr, cells = sym_obj(ex, mem, m, 'CassiniSoldner', fixed={o['_meridian'] + og['_caps']: cp['LATITUDE'] | cp['DISTANCE_IN']}); ex.new_obj(mem, 'o')
        return [ptr, x, y, rsym.Ptr('o', 0), rsym.Ptr('o', 8), rsym.Ptr('o', 16), rsym.Ptr('o', 24)]
    ex = rsym.Exec(m, opaque=STUBS)
    paths = ex.run_all(CSR, mk)
    def claims(p):
        calls = rec(p.mem); ps = [c for c in calls if c[0] == 'pos']; d = [c for c in calls if c[0] == 'dir']; out = p.mem['o']
        if len(ps) != 1 or len(d) != 1: return [('one meridian position and one direct problem', False)]
        g = ps[0][2]; a = d[0][1]; h = d[0][2]
        return [('foot of the perpendicular: the meridian at distance y', same(ps[0][1][0], rsym.Ptr('obj', o['_meridian'])) and ps[0][1][1] == 0 and same(ps[0][1][2], y)),
                ('perpendicular starts at the foot', z3.And(a[0] == g['lat2'], a[1] == g['lon2'])), ('perpendicular azimuth = meridian azimuth + 90', a[2] == g['azi2'] + 90),
                ('distance mode with distance x', z3.And(a[3] == 0, a[4] == x)),
                ('outputs are the end point of the perpendicular, rk = M12', z3.And(out[0] == h['lat2'], out[8] == h['lon2'], out[16] == h['azi2'], out[24] == h['M12']))]
    return run_claims(paths, claims, ['GeographicLib::CassiniSoldner::Reverse'], {'object': 'arbitrary initialised members'}, 'CassiniSoldner::Reverse')

class _Done(Exception):
    def __init__(s, mem): s.mem = mem

def ob_cs_forward(ctx):
    m = H.ir_module(ctx, W); o = H.offsets(m, 'CassiniSoldner'); og = H.offsets(m, 'GeodesicLine'); cp = caps(ctx)
    lat, lon = z3.Real('lat'), z3.Real('lon'); dlon = z3.Real('angdiff')
    res = []
    def line(ex, a, mem):
        st_line(ex, a, mem); res.append((list(ex.cur.cond), dict(mem))); raise rsym.Cut()
    def mk(ex, mem):
        ptr, cells = sym_obj(ex, mem, m, 'CassiniSoldner', fixed={o['_meridian'] + og['_caps']: cp['LATITUDE'] | cp['DISTANCE_IN']}); ex.new_obj(mem, 'o')
        return [ptr, lat, lon, rsym.Ptr('o', 0), rsym.Ptr('o', 8), rsym.Ptr('o', 16), rsym.Ptr('o', 24)]
    def signbit(ex, a, mem): return z3.If(a[0] < 0, z3.BitVecVal(1, 32), z3.BitVecVal(0, 32))
    ex = rsym.Exec(m, opaque=dict(STUBS, **{LINE: line}), assume=[dlon != 0], path_cap=64)
    ex.run_all(CSF, mk)
    class P: pass
    paths = []
    for cond, mem in res:
        p = P(); p.cond = cond; p.mem = mem; paths.append(p)
    def claims(p):
        calls = rec(p.mem); inv = [c for c in calls if c[0] == 'inv']; ln = [c for c in calls if c[0] == 'line']; an = [c for c in calls if c[0] == 'an']; out = p.mem['o']
        if len(inv) != 1 or len(ln) != 1 or len(an) != 1: return [('one inverse problem, one AngNormalize, one line', False)]
        a = inv[0][1]; g = inv[0][2]; ad = z3.If(dlon >= 0, dlon, -dlon)
        return [('symmetric inverse problem across the central meridian', z3.And(a[0] == lat, a[2] == lat, a[1] == -ad, a[3] == ad)),
                ('x = signed half length of that geodesic', z3.Implies(g['s12'] != 0, out[0] == z3.If(dlon < 0, -g['s12'] / 2, g['s12'] / 2))),
                ('azimuth of the easting line: the forward azimuth at the eastern end, the initial azimuth at the western one', z3.Implies(g['s12'] != 0, an[0][1] == z3.If(dlon < 0, g['azi1'], g['azi2']))),
                ('azi = AngNormalize of it', out[16] == z3.Real('angnorm')),
                ('perpendicular through the point: Line(lat, dlon, azi)', z3.And(ln[0][1][0] == lat, ln[0][1][1] == dlon, ln[0][1][2] == z3.Real('angnorm')))]
    r = run_claims(paths, claims, ['GeographicLib::CassiniSoldner::Forward (up to the construction of the perpendicular)'], {'dlon': 'non-zero (the sign of a zero longitude difference needs signbit, outside the real model)'}, 'CassiniSoldner::Forward')
    return r

# ---- Intersect: fixcoincident / fixsegment (E2)
def xpoint(ex, mem, name, x, y, c):
    return ex.new_obj(mem, name, {0: x, 8: y, 16: c})

def ob_fixcoincident(ctx):
    m = H.ir_module(ctx, W)
    p0x, p0y, px, py = [z3.Real(n) for n in ('p0x', 'p0y', 'px', 'py')]
    q = 0; ss = 0.0; bad = None; unk = []; np_ = 0
    for c in (-1, 0, 1):
        def mk(ex, mem):
            xpoint(ex, mem, 'p0', p0x, p0y, 0); xpoint(ex, mem, 'p', px, py, c); ex.new_obj(mem, 'r')
            return [rsym.Ptr('r', 0), rsym.Ptr('p0', 0), rsym.Ptr('p', 0), c & 0xffffffff]
        ex = rsym.Exec(m); paths = ex.run_all(FIXC, mk); np_ += len(paths)
        for p in paths:
            r = p.mem['r']; rx, ry = r[0], r[8]
            claims = [('c kept', z3.BoolVal(r[16] == (c & 0xffffffff) or r[16] == c))]
            if c == 0: claims += [('non-coincident point unchanged', z3.And(rx == px, ry == py))]
            else:
                claims += [('moved along the coincidence line y - c x = const', ry - c * rx == py - c * px),
                           ('placed where the L1 distance to p0 along the line is least: p0x - rx = -c (p0y - ry)', p0x - rx == -c * (p0y - ry))]
                t = z3.Real('t')    # minimality: no other point of the line is L1-closer to p0
                ab = lambda e: z3.If(e >= 0, e, -e)
                claims.append(('no point of the line is L1-closer to p0', ab(px + t - p0x) + ab(py + c * t - p0y) >= ab(rx - p0x) + ab(ry - p0y)))
            for nm, cl in claims:
                st, model, dt = rsym.prove(cl, list(p.cond), timeout_ms=30000); q += 1; ss += dt
                if st == 'sat' and bad is None: bad = {'kind': 'fixcoincident', 'c': c, 'claim': nm, 'pt': [str(rsym.model_value(model, v)) for v in (p0x, p0y, px, py)]}
                elif st == 'unknown': unk.append(nm)
    r = {'queries': q, 'nontrivial': q, 'solver_s': round(ss, 3), 'functions': ['GeographicLib::Intersect::fixcoincident'], 'bounds': {'c': '-1, 0, 1', 'paths': np_}}
    if bad: r.update({'verdict': 'violated', 'detail': 'fixcoincident(c=%d): "%s" refuted' % (bad['c'], bad['claim']), 'cex': bad})
    elif unk: r.update({'verdict': 'inconclusive', 'detail': 'unknown: %r' % unk})
    else: r['verdict'] = 'proved'
    return r

def ob_fixsegment(ctx):
    m = H.ir_module(ctx, W)
    sx, sy, px, py = [z3.Real(n) for n in ('sx', 'sy', 'px', 'py')]
    q = 0; ss = 0.0; bad = None; unk = []; np_ = 0
    for c in (-1, 0, 1):
        def mk(ex, mem):
            xpoint(ex, mem, 'p', px, py, c & 0xffffffff); ex.new_obj(mem, 'r')
            return [rsym.Ptr('r', 0), sx, sy, rsym.Ptr('p', 0)]
        ex = rsym.Exec(m, assume=[sx >= 0, sy >= 0], path_cap=4096); paths = ex.run_all(FIXS, mk); np_ += len(paths)
        for p in paths:
            r = p.mem['r']; rx, ry = r[0], r[8]; t = z3.Real('t')
            if c == 0: claims = [('non-coincident point unchanged', z3.And(rx == px, ry == py))]
            else:
                inside = lambda X, Y: z3.And(0 <= X, X <= sx, 0 <= Y, Y <= sy)
                claims = [('moved along the coincidence line y - c x = const', ry - c * rx == py - c * px),
                          ('if the coincidence line meets the segment rectangle the point is placed inside it', z3.Implies(inside(px + t, py + c * t), inside(rx, ry)))]
            for nm, cl in claims:
                st, model, dt = rsym.prove(cl, list(p.cond), timeout_ms=30000); q += 1; ss += dt
                if st == 'sat' and bad is None: bad = {'kind': 'fixsegment', 'c': c, 'claim': nm, 'pt': [str(rsym.model_value(model, v)) for v in (sx, sy, px, py)]}
                elif st == 'unknown': unk.append(nm)
    r = {'queries': q, 'nontrivial': q, 'solver_s': round(ss, 3), 'functions': ['GeographicLib::Intersect::fixsegment'], 'bounds': {'c': '-1, 0, 1', 'sx, sy': '>= 0', 'paths': np_}}
    if bad: r.update({'verdict': 'violated', 'detail': 'fixsegment(c=%d): "%s" refuted at (sx, sy, px, py) = %s' % (bad['c'], bad['claim'], bad['pt']), 'cex': bad})
    elif unk: r.update({'verdict': 'inconclusive', 'detail': 'unknown: %r' % unk})
    else: r['verdict'] = 'proved'
    return r

def obligations(ctx):
    obs = [Ob('P1.AzimuthalEquidistant.Forward', ob_ae_forward, '[REAL]', 'E2 rsym+z3', 'point placed at its geodesic distance and azimuth from the centre; azi and rk are those of the geodesic', timeout=300),
           Ob('P2.AzimuthalEquidistant.Reverse', ob_ae_reverse, '[REAL]', 'E2 rsym+z3', 'Reverse solves the direct problem with azimuth atan2d(x,y) and distance hypot(x,y): the inverse of Forward', timeout=300),
           Ob('P3.Gnomonic.Forward', ob_gn_forward, '[REAL]', 'E2 rsym+z3', 'radius m12/M12 along the azimuth at the centre; NaN beyond the horizon; rk = M12', timeout=300),
           Ob('P4.Gnomonic.Reverse', ob_gn_reverse, '[REAL]', 'E2 rsym+z3', 'Newton iteration on rho(s) = m12/M12 along the line from the centre; the result is the position at the converged distance', timeout=600),
           Ob('P5.CassiniSoldner.Reverse', ob_cs_reverse, '[REAL]', 'E2 rsym+z3', 'foot of the perpendicular at meridian distance y, then distance x along the perpendicular', timeout=300),
           Ob('P6.CassiniSoldner.Forward', ob_cs_forward, '[REAL]', 'E2 rsym+z3', 'x is the signed half length of the symmetric geodesic across the central meridian; azimuth bookkeeping by the sign of the longitude difference', timeout=300),
           Ob('I1.fixcoincident', ob_fixcoincident, '[REAL]', 'E2 rsym+z3', 'coincident intersection moved along y = c x + const to the L1-closest place to p0', timeout=300),
           Ob('I2.fixsegment', ob_fixsegment, '[REAL]', 'E2 rsym+z3', 'coincident intersection moved along its line into the segment rectangle whenever the line meets it', timeout=600)]
    return obs

SHELL = {'AzimuthalEquidistant::Forward': 1, 'AzimuthalEquidistant::Reverse': 2, 'Gnomonic::Forward': 3, 'Gnomonic::Reverse': 4, 'CassiniSoldner::Reverse': 5, 'CassiniSoldner::Forward': 6}
def replay(rp):
    """fresh native build of the current tree; the refuted claim is evaluated on the real code with the real geodesic solver"""
    cex = rp['cex']; lib = H.native({}, W)
    if cex.get('kind') == 'shell':
        f = lib.vf_c17_shell; f.restype = ctypes.c_double; f.argtypes = [ctypes.c_int]
        dev = f(SHELL[cex['what']])
        return dev > 1e-6, '%s: claim "%s" refuted by the solver; on the real code (WGS84, 7 ordinary points) the largest deviation from the defining geometry is %.3g (m, degrees*1e5 or scale units)' % (cex['what'], cex['claim'], dev)
    if cex.get('kind') in ('fixcoincident', 'fixsegment'):
        pt = [float(Fraction(x)) for x in cex['pt']]; out = (ctypes.c_double * 3)()
        f = getattr(lib, 'vf_' + cex['kind']); f.restype = None; f.argtypes = [ctypes.c_double] * 4 + [ctypes.c_int, ctypes.c_void_p]
        f(pt[0], pt[1], pt[2], pt[3], cex['c'], out); rx, ry = out[0], out[1]; c = cex['c']
        if cex['kind'] == 'fixcoincident':
            p0x, p0y, px, py = pt
            online = abs((ry - c * rx) - (py - c * px)) <= 1e-9 * (1 + abs(px) + abs(py) + abs(p0x) + abs(p0y))
            mid = abs((p0x - rx) + c * (p0y - ry)) <= 1e-9 * (1 + abs(px) + abs(py) + abs(p0x) + abs(p0y))
            bad = not (online and mid) if c else not (rx == px and ry == py)
            return bad, 'fixcoincident(p0=(%g,%g), p=(%g,%g), c=%d) returns (%g,%g): on the coincidence line: %s, at the L1-closest place: %s' % (p0x, p0y, px, py, c, rx, ry, online, mid)
        sx, sy, px, py = pt
        online = abs((ry - c * rx) - (py - c * px)) <= 1e-9 * (1 + abs(px) + abs(py) + sx + sy)
        # does the line meet the rectangle?  parametrise t in the x-range and intersect with the y-range
        lo = max(-px, (-py if c > 0 else py - sy)); hi = min(sx - px, (sy - py if c > 0 else py))
        meets = lo <= hi
        inside = -1e-9 <= rx <= sx + 1e-9 and -1e-9 <= ry <= sy + 1e-9
        bad = (not online or (meets and not inside)) if c else not (rx == px and ry == py)
        return bad, 'fixsegment(sx=%g, sy=%g, p=(%g,%g), c=%d) returns (%g,%g): on the line: %s, line meets the rectangle: %s, result inside: %s' % (sx, sy, px, py, c, rx, ry, online, meets, inside)
    return None, 'no concrete replay for ' + str(cex.get('kind'))

MANIFEST = {
    'engine': 'E2',
    'technique': 'symbolic execution of clang IR over z3 reals with the geodesic solver as an opaque environment; every claim is a z3 validity query under the path condition',
    'text': 'Bounded solver verdicts on the real code: AzimuthalEquidistant, Gnomonic and CassiniSoldner Forward/Reverse pass the right problems to the geodesic solver and assemble exactly the defining geometry from its answers '
            '(distance and azimuth from the centre, radius m12/M12 with NaN beyond the horizon, Newton update of the gnomonic inverse, perpendicular foot construction); Intersect::fixcoincident/fixsegment keep a coincident intersection on its line and place it as documented.',
    'note': 'The geodesic solver is opaque (its correctness is C02/C03/C12); Intersect search routines and NearestNeighbor are not covered (attempted, out of reach for cbmc here); exact-real semantics. Trusted: clang-14, vfw/irparse+rsym, z3.',
}
