#!/usr/bin/env python3
"""C20 — geoid heights independent of cache history (E1)"""
import os
from vfw.run import Ob
from vfw import e1, build
from harness import common as H

W = 'w_Geoid'; HC = os.path.join(build.VERIF, 'harness', 'C20', 'c20.c')
HEIGHT = '@_ZNK13GeographicLib5Geoid6heightEdd'; RAW = '@_ZNK13GeographicLib5Geoid6rawvalEii'
ANG = '@_ZN13GeographicLib4Math12AngNormalizeIdEET_S2_'
ASSUMPTIONS = [
    'CacheArea obligation: concrete raster geometry width 4 x height 3 (2-byte pixels, data start 1000), empty cache before the call, the file (seekg, readarray) and the row storage (vector fill-insert) are environment stubs that record which raster cells each read delivers; precise IEEE arithmetic, AngNormalize by contract (NaN for non-finite, else in [-180,180]); limits are arbitrary doubles',
    'the history obligation is decided for bilinear interpolation; its cubic instance is not registered (cbmc gave a spurious, non-reproducible result at ~30 GB twice)',
    'height(): FP mode U (arithmetic uninterpreted per call site: congruence only); Geoid::rawval is an uninterpreted pure function of (ix, iy) — the raster, offsets and the area cache are not modified by height(), so the pixel a cell index denotes is fixed',
    'history argument (stated in the harness): every single-cell cache state reachable by any sequence of height queries / CacheClear is the state left by one non-hit query on a cleared object; the two-query harness therefore covers all histories for the single-cell cache',
    'raster geometry arbitrary with even width in [2, 2^20], odd height in [3, 2^20]; every other member of the Geoid object arbitrary',
    'the area cache (CacheArea/CacheAll filling, rawval through _data) and the PGM header parser are not covered by these obligations yet; the numerical quality of the cubic fit and real data files are outside the claim',
]

def prepare(ctx):
    H.ir_module(ctx, W)

def _cb(fn, defines=(), timeout=600):
    def run(ctx):
        m = H.ir_module(ctx, W)
        offs = ['@vf_off_Geoid_' + k for k in ('_width', '_height', '_threadsafe', '_ix', '_iy', '_cubic', '_rlonres', '_rlatres')]
        return e1.cbmc_check(ctx, m, 'C20', [HEIGHT], HC, stop=[RAW, ANG], function=fn, unwind=100, defines=list(defines) + ['VF_MEM_MAX=96'], timeout=timeout,
                             export_types=['%"class.GeographicLib::Geoid"'], extra_globals=offs)
    run.cbmc_timeout = timeout
    return run

HA = os.path.join(build.VERIF, 'harness', 'C20', 'c20a.c')
CA = '@_ZNK13GeographicLib5Geoid9CacheAreaEdddd'
def ob_cachearea(ctx):
    m = H.ir_module(ctx, W)
    offs = ['@vf_off_Geoid_' + k for k in ('_width', '_height', '_swidth', '_threadsafe', '_cubic', '_rlonres', '_rlatres', '_datastart', '_data', '_xsize', '_ysize', '_xoffset', '_yoffset')]
    stops = [ANG, '@_ZNK13GeographicLib5Geoid10CacheClearEv', '@_ZNSi5seekgESt4fposI11__mbstate_tE', '@_ZN13GeographicLib7Utility9readarrayIttLb1EEEvRSiPT0_m',
             '@_ZNSt6vectorIS_ItSaItEESaIS1_EE14_M_fill_insertEN9__gnu_cxx17__normal_iteratorIPS1_S3_EEmRKS1_', '@_ZNSt6vectorItSaItEE17_M_default_appendEm',
             '@_ZStplIcSt11char_traitsIcESaIcEENSt7__cxx1112basic_stringIT_T0_T1_EEOS8_PKS5_', '@_ZStplIcSt11char_traitsIcESaIcEENSt7__cxx1112basic_stringIT_T0_T1_EEPKS5_RKS8_', '@__clang_call_terminate']
    return e1.cbmc_check(ctx, m, 'C20', [CA], HA, stop=stops, function='harness_cachearea', unwind=8, unwindset={'vf_memset.0': 34, 'vf_memmove.0': 6, 'vf_memmove.1': 6, 'vf_memmove.2': 34, 'vf_memmove.3': 34}, defines=['VF_MEM_MAX=32', 'VF_STR_MAX=4'], timeout=900, export_types=['%"class.GeographicLib::Geoid"'], extra_globals=offs)
ob_cachearea.cbmc_timeout = 900

def obligations(ctx):
    obs = []
    for cubic in (0, 1):
      obs += [
        Ob('Q3.height.history.%s' % ('cubic' if cubic else 'bilinear'), _cb('harness_height_history', defines=['CUBIC=%d' % cubic], timeout=(3000 if cubic else 600)), '[ABS-U]', 'E1 cgen+cbmc',
           'Geoid::height: for every raster geometry and every pair of positions, the height of the second query after the first (single-cell cache in any reachable state) is bit-identical to the thread-safe evaluation without history; NaN in, NaN out',
           timeout=(3030 if cubic else 630), mem_gb=(44 if cubic else 8), tier=('thorough' if cubic else 'quick'), bounds={'histories': 'all (inductive two-query argument)', 'positions': 'all doubles', 'raster': 'arbitrary geometry'}),
        Ob('Q6.height.conversions.%s' % ('cubic' if cubic else 'bilinear'), _cb('harness_height_range', defines=['H_RANGE', 'CUBIC=%d' % cubic]), '[BIT-P] hybrid', 'E1 cgen+cbmc',
           'Geoid::height: the float->int conversions of the cell indices are in range for every position (no undefined behaviour), resolution products bounded by 2^30', timeout=630,
           bounds={'positions': 'all doubles incl. NaN and +-inf', 'lon*rlonres, lat*rlatres': '< 2^30 in magnitude for finite operands'}),
      ]
    if not os.environ.get('VERIF_EXPERIMENTAL'):
        # the cubic history obligation (36 pixel accesses per query, ~30 GB) twice ended with a spurious cbmc result (every assertion failing, empty trace) that does
        # not reproduce on the real code: the machinery is not sound there, so it is not registered (the bilinear instance of the same code is decided)
        obs = [o for o in obs if o.name != 'Q3.height.history.cubic']
    obs.append(Ob('Q4.CacheArea', ob_cachearea, '[BIT-P]', 'E1 cgen+cbmc', 'Geoid::CacheArea on a 4x3 raster: cell-index conversions in range for ALL doubles (NaN, infinities, latitudes beyond the poles), only GeographicErr, reads never run past a raster row, every cached cell holds the raster cell it stands for (wrap at longitude 0, reflection beyond the poles, cubic margins)', timeout=930, mem_gb=16,
                  bounds={'raster': 'width 4, height 3', 'limits': 'all doubles', 'interpolation': 'both', 'cache before the call': 'empty'}))
    return obs

REPLAY_BODY = r"""
  // synthetic raster: W x H pixels (even W, odd H), offset/scale in the header comments, pixel = deterministic hash
  using namespace GeographicLib;
  const int W = 8, H = 5;
  std::string dir = "%(dir)s", name = "vfgeoid";
  { FILE* f = fopen((dir + "/" + name + ".pgm").c_str(), "wb");
    fprintf(f, "P5\n# Description synthetic\n# Offset -108\n# Scale 0.003\n%%d %%d\n65535\n", W, H);
    for (int iy = 0; iy < H; ++iy) for (int ix = 0; ix < W; ++ix) { unsigned v = (ix * 7919u + iy * 104729u + ix * iy * 31u) %% 60000u + 1000u; fputc(v >> 8, f); fputc(v & 255, f); }
    fclose(f); }
  int bad = 0;
  for (int cubic = 0; cubic < 2 && !bad; ++cubic) {
    if (%(onlycubic)d >= 0 && cubic != %(onlycubic)d) continue;
    Geoid ts(name, dir, cubic != 0, true);
    double specials[] = {%(specials)s};
    for (double lo : specials) { double h = ts(10.0, lo); printf("special_lon=%%a h=%%a\n", lo, h); }
    for (int a = 0; a < 187 && !bad; ++a) {
      double lat1 = -90 + (a / 17) * 18.0, lon1 = -180 + (a %% 17) * 22.5;
      for (int b = 0; b < 187 && !bad; ++b) {
        double lat2 = -90 + (b / 17) * 18.0 + 0.3, lon2 = -180 + (b %% 17) * 22.5 + 0.4;
        if (lat2 > 90) lat2 = 90;
        Geoid g(name, dir, cubic != 0, false);
        double h1 = g(lat1, lon1), h2 = g(lat2, lon2), r2 = ts(lat2, lon2);
        if (memcmp(&h2, &r2, 8) != 0) { printf("MISMATCH cubic=%%d first=(%%g,%%g) second=(%%g,%%g) with_history=%%.17g fresh=%%.17g\n", cubic, lat1, lon1, lat2, lon2, h2, r2); bad = 1; }
      }
    }
  }
  printf("bad=%%d\n", bad);
"""

REPLAY_AREA = r"""
  using namespace GeographicLib;
  const int W = 8, H = 5;
  std::string dir = "%(dir)s", name = "vfgeoid";
  { FILE* f = fopen((dir + "/" + name + ".pgm").c_str(), "wb");
    fprintf(f, "P5\n# Description synthetic\n# Offset -108\n# Scale 0.003\n%%d %%d\n65535\n", W, H);
    for (int iy = 0; iy < H; ++iy) for (int ix = 0; ix < W; ++ix) { unsigned v = (ix * 7919u + iy * 104729u + ix * iy * 31u) %% 60000u + 1000u; fputc(v >> 8, f); fputc(v & 255, f); }
    fclose(f); }
  int bad = 0;
  const double sp[][4] = { {NAN, 0, 10, 20}, {-100, 0, 10, 20}, {0, INFINITY, 10, 20}, {0, 0, 10, NAN}, {0, 0, 200, 20}, {0, -INFINITY, 10, 20} };
  for (int cubic = 0; cubic < 2; ++cubic) {
    Geoid ts(name, dir, cubic != 0, true);
    for (unsigned k = 0; k < 6; ++k) { Geoid g(name, dir, cubic != 0, false);
      try { g.CacheArea(sp[k][0], sp[k][1], sp[k][2], sp[k][3]); printf("special %%u accepted\n", k); } catch (const GeographicErr&) { printf("special %%u GeographicErr\n", k); } }
    const double rect[][4] = { {-90, -180, 90, 180}, {50, 100, 90, -100}, {-90, 170, -60, -170}, {60, -10, 90, 30}, {-30, 120, 20, -120}, {80, 0, 90, 359}, {-90, -45, -80, 44} };
    for (unsigned k = 0; k < 7 && !bad; ++k) {
      Geoid g(name, dir, cubic != 0, false); g.CacheArea(rect[k][0], rect[k][1], rect[k][2], rect[k][3]);
      double e = rect[k][3] <= rect[k][1] ? rect[k][3] + 360 : rect[k][3];
      for (int a = 0; a <= 12 && !bad; ++a) for (int b = 0; b <= 12 && !bad; ++b) {
        double lat = rect[k][0] + (rect[k][2] - rect[k][0]) * a / 12.0, lon = rect[k][1] + (e - rect[k][1]) * b / 12.0;
        double h1 = g(lat, lon), h2 = ts(lat, lon);
        if (memcmp(&h1, &h2, 8) != 0) { printf("MISMATCH cubic=%%d area=(%%g,%%g,%%g,%%g) at (%%g,%%g): cached %%.17g uncached %%.17g\n", cubic, rect[k][0], rect[k][1], rect[k][2], rect[k][3], lat, lon, h1, h2); bad = 1; }
      }
    }
  }
  printf("bad=%%d\n", bad);
"""

def replay(rp):
    cex = rp['cex']; fn = cex.get('function', '')
    if fn == 'harness_cachearea':
        d = build.scratch()
        r = H.native_run(W, REPLAY_AREA % {'dir': d}, includes='#include <cstdio>\n#include <cstring>\n#include <cmath>')
        if H.san_failed(r): return True, 'Geoid::CacheArea on a synthetic 8x5 raster (limits NaN / out of range / infinite): ' + H.san_msg(r)
        for ln in r['out'].split('\n'):
            if ln.startswith('MISMATCH'): return True, 'Geoid with a cached area on a synthetic 8x5 raster: ' + ln
        if r['rc'] != 0 and 'bad=' not in r['out']: return None, 'replay program failed: ' + r['err'][-400:]
        return False, 'no undefined behaviour for illegal limits and cached == uncached heights on the synthetic 8x5 raster (7 areas incl. polar and wrapped ones, both interpolation modes)'

    d = build.scratch()
    specials = 'INFINITY, -INFINITY' if fn == 'harness_height_range' else '0.0'
    r = H.native_run(W, REPLAY_BODY % {'dir': d, 'onlycubic': -1, 'specials': specials}, includes='#include <cstdio>\n#include <cstring>\n#include <cmath>')
    if H.san_failed(r): return True, 'Geoid::height on a synthetic 8x5 raster: ' + H.san_msg(r)
    for ln in r['out'].split('\n'):
        if ln.startswith('MISMATCH'): return True, 'Geoid::height on a synthetic 8x5 raster, same object: ' + ln
    if r['rc'] != 0 and 'bad=' not in r['out']: return None, 'replay program failed: ' + r['err'][-400:]
    return False, 'no history-dependent height and no undefined behaviour on the synthetic 8x5 raster (187 x 187 query pairs, both interpolation modes, lon = +-inf)'

MANIFEST = {
    'engine': 'E1',
    'technique': 'relational bounded model checking (cbmc) of C generated from the clang IR of Geoid::height, pixel access as an uninterpreted function; inductive two-query argument for the history quantifier',
    'text': 'Bounded solver verdict on the real code of Geoid::height: for an arbitrary raster geometry, interpolation mode and any two positions, the second height is bit-identical whether or not the first query was made '
            '(i.e. independent of the single-cell cache state any history can leave) and equals the thread-safe evaluation; NaN positions give NaN; cell-index conversions are in range. Geoid::CacheArea (4x3 raster, file as environment): no out-of-range conversion for any doubles, only GeographicErr, '
            'every cached cell holds the raster cell it stands for (wrap at longitude 0, reflection beyond the poles, cubic margins).',
    'note': 'FP arithmetic abstracted by congruence (mode U); rawval opaque. Geoid::CacheArea is decided on a 4x3 raster with the file as an environment (Q4); CacheAll, re-caching over an existing cache, the PGM header parser and the interpolation formulas themselves are not covered. '
            'Trusted: clang-14, vfw/cgen, cbmc 6.11, the stated induction argument.',
}
