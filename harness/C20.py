#!/usr/bin/env python3
"""C20 — geoid heights independent of cache history (E1)"""
import os
from vfw.run import Ob
from vfw import e1, build
from harness import common as H

W = 'w_Geoid'; HC = os.path.join(build.VERIF, 'harness', 'C20', 'c20.c')
HEIGHT = '@_ZNK13GeographicLib5Geoid6heightEdd'; RAW = '@_ZNK13GeographicLib5Geoid6rawvalEii'
ANG = '@_ZN13GeographicLib4Math12AngNormalizeIdEET_S2_'
ASSUMPTIONS = [
    'height(): FP mode U (arithmetic uninterpreted per call site: congruence only); Geoid::rawval is an uninterpreted pure function of (ix, iy) — the raster, offsets and the area cache are not modified by height(), so the pixel a cell index denotes is fixed',
    'history argument (stated in the harness): every single-cell cache state reachable by any sequence of height queries / CacheClear is the state left by one non-hit query on a cleared object; the two-query harness therefore covers all histories for the single-cell cache',
    'raster geometry arbitrary with even width in [2, 2^20], odd height in [3, 2^20]; every other member of the Geoid object arbitrary',
    'the area cache (CacheArea/CacheAll filling, rawval through _data) and the PGM header parser are not covered by these obligations yet; the numerical quality of the cubic fit and real data files are outside the claim',
]

def prepare(ctx):
    H.ir_module(ctx, W)

def _cb(fn, defines=(), timeout=600):
    def run(ctx):
        m = H.ir_module(ctx, W)
        offs = ['@vf_off_Geoid_' + k for k in ('_width', '_height', '_threadsafe', '_ix', '_iy', '_cubic', '_rlonres', '_rlatres')]
        return e1.cbmc_check(ctx, m, 'C20', [HEIGHT], HC, stop=[RAW, ANG], function=fn, unwind=100, defines=list(defines) + ['VF_MEM_MAX=96'], timeout=timeout,
                             export_types=['%"class.GeographicLib::Geoid"'], extra_globals=offs)
    run.cbmc_timeout = timeout
    return run

def obligations(ctx):
    obs = []
    for cubic in (0, 1):
      obs += [
        Ob('Q3.height.history.%s' % ('cubic' if cubic else 'bilinear'), _cb('harness_height_history', defines=['CUBIC=%d' % cubic], timeout=(3000 if cubic else 600)), '[ABS-U]', 'E1 cgen+cbmc',
           'Geoid::height: for every raster geometry and every pair of positions, the height of the second query after the first (single-cell cache in any reachable state) is bit-identical to the thread-safe evaluation without history; NaN in, NaN out',
           timeout=(3030 if cubic else 630), mem_gb=(44 if cubic else 8), tier=('thorough' if cubic else 'quick'), bounds={'histories': 'all (inductive two-query argument)', 'positions': 'all doubles', 'raster': 'arbitrary geometry'}),
        Ob('Q6.height.conversions.%s' % ('cubic' if cubic else 'bilinear'), _cb('harness_height_range', defines=['H_RANGE', 'CUBIC=%d' % cubic]), '[BIT-P] hybrid', 'E1 cgen+cbmc',
           'Geoid::height: the float->int conversions of the cell indices are in range for every position (no undefined behaviour), resolution products bounded by 2^30', timeout=630,
           bounds={'positions': 'all doubles incl. NaN and +-inf', 'lon*rlonres, lat*rlatres': '< 2^30 in magnitude for finite operands'}),
      ]
    return obs

REPLAY_BODY = r"""
  // synthetic raster: W x H pixels (even W, odd H), offset/scale in the header comments, pixel = deterministic hash
  using namespace GeographicLib;
  const int W = 8, H = 5;
  std::string dir = "%(dir)s", name = "vfgeoid";
  { FILE* f = fopen((dir + "/" + name + ".pgm").c_str(), "wb");
    fprintf(f, "P5\n# Description synthetic\n# Offset -108\n# Scale 0.003\n%%d %%d\n65535\n", W, H);
    for (int iy = 0; iy < H; ++iy) for (int ix = 0; ix < W; ++ix) { unsigned v = (ix * 7919u + iy * 104729u + ix * iy * 31u) %% 60000u + 1000u; fputc(v >> 8, f); fputc(v & 255, f); }
    fclose(f); }
  int bad = 0;
  for (int cubic = 0; cubic < 2 && !bad; ++cubic) {
    if (%(onlycubic)d >= 0 && cubic != %(onlycubic)d) continue;
    Geoid ts(name, dir, cubic != 0, true);
    double specials[] = {%(specials)s};
    for (double lo : specials) { double h = ts(10.0, lo); printf("special_lon=%%a h=%%a\n", lo, h); }
    for (int a = 0; a < 187 && !bad; ++a) {
      double lat1 = -90 + (a / 17) * 18.0, lon1 = -180 + (a %% 17) * 22.5;
      for (int b = 0; b < 187 && !bad; ++b) {
        double lat2 = -90 + (b / 17) * 18.0 + 0.3, lon2 = -180 + (b %% 17) * 22.5 + 0.4;
        if (lat2 > 90) lat2 = 90;
        Geoid g(name, dir, cubic != 0, false);
        double h1 = g(lat1, lon1), h2 = g(lat2, lon2), r2 = ts(lat2, lon2);
        if (memcmp(&h2, &r2, 8) != 0) { printf("MISMATCH cubic=%%d first=(%%g,%%g) second=(%%g,%%g) with_history=%%.17g fresh=%%.17g\n", cubic, lat1, lon1, lat2, lon2, h2, r2); bad = 1; }
      }
    }
  }
  printf("bad=%%d\n", bad);
"""

def replay(rp):
    cex = rp['cex']; fn = cex.get('function', '')
    d = build.scratch()
    specials = 'INFINITY, -INFINITY' if fn == 'harness_height_range' else '0.0'
    r = H.native_run(W, REPLAY_BODY % {'dir': d, 'onlycubic': -1, 'specials': specials}, includes='#include <cstdio>\n#include <cstring>\n#include <cmath>')
    if H.san_failed(r): return True, 'Geoid::height on a synthetic 8x5 raster: ' + H.san_msg(r)
    for ln in r['out'].split('\n'):
        if ln.startswith('MISMATCH'): return True, 'Geoid::height on a synthetic 8x5 raster, same object: ' + ln
    if r['rc'] != 0 and 'bad=' not in r['out']: return None, 'replay program failed: ' + r['err'][-400:]
    return False, 'no history-dependent height and no undefined behaviour on the synthetic 8x5 raster (187 x 187 query pairs, both interpolation modes, lon = +-inf)'

MANIFEST = {
    'engine': 'E1',
    'technique': 'relational bounded model checking (cbmc) of C generated from the clang IR of Geoid::height, pixel access as an uninterpreted function; inductive two-query argument for the history quantifier',
    'text': 'Bounded solver verdict on the real code of Geoid::height: for an arbitrary raster geometry, interpolation mode and any two positions, the second height is bit-identical whether or not the first query was made '
            '(i.e. independent of the single-cell cache state any history can leave) and equals the thread-safe evaluation; NaN positions give NaN; cell-index conversions are in range.',
    'note': 'FP arithmetic abstracted by congruence (mode U); rawval opaque. The area cache (CacheArea/CacheAll), the PGM header parser and the interpolation formulas themselves are not yet covered. '
            'Trusted: clang-14, vfw/cgen, cbmc 6.11, the stated induction argument.',
}
