#!/usr/bin/env python3
"""C08 — polygon area: crossing counters, one-step frames of the state machine, constness of tentative queries (E1)"""
import os
from vfw.run import Ob
from vfw import e1, build
from harness import common as H

W = 'w_Polygon'; HC = os.path.join(build.VERIF, 'harness', 'C08', 'c08.c')
P = '@_ZN13GeographicLib12PolygonAreaTINS_8GeodesicEE'; PK = '@_ZNK13GeographicLib12PolygonAreaTINS_8GeodesicEE'
ASSUMPTIONS = [
    'FP mode P with remainder/fmod by contract (exact for |x| < 1.5 y resp. 2 y); transit is checked on the integer-degree lattice |lon| <= 540 (where AngDiff, AngNormalize and TwoSum are exact), transitdirect for all doubles with |lon| < 1080',
    'the geodesic/rhumb solvers are opaque (arbitrary s12, S12, end point): the obligations are about the polygon bookkeeping, for one step from an arbitrary state, which covers edit histories of any length by induction',
    'only the PolygonAreaT<Geodesic> instantiation is encoded (the template code is shared by the GeodesicExact and Rhumb instantiations)',
    'first-vertex independence, additivity along a diagonal, longitude-shift invariance of the area VALUE, and TestPoint == AddPoint;Compute up to round-off need the solvers\' values: outside this claim',
]
TYPES = ['%"class.GeographicLib::PolygonAreaT"']
def prepare(ctx):
    H.ir_module(ctx, W)

def _cb(fn, roots, defines=(), timeout=600, unwind=70, stop=()):
    def run(ctx):
        m = H.ir_module(ctx, W)
        offs = ['@vf_off_PolygonArea_G_' + k for k in ('_area0', '_polyline', '_mask', '_num', '_crossings', '_areasum', '_perimetersum', '_lat0', '_lon0', '_lat1', '_lon1')]
        return e1.cbmc_check(ctx, m, 'C08', roots, HC, function=fn, unwind=unwind, defines=list(defines) + ['VF_MEM_MAX=16'], timeout=timeout, stop=list(stop), export_types=TYPES, extra_globals=offs)
    run.cbmc_timeout = timeout
    return run

def obligations(ctx):
    TR = P + '7transitEdd'; TD = P + '13transitdirectEdd'; AD = '@_ZN13GeographicLib4Math7AngDiffIdEET_S2_S2_RS2_'; AN = '@_ZN13GeographicLib4Math12AngNormalizeIdEET_S2_'
    return [
        Ob('Q1.transit', _cb('harness_transit', [TR, AD, AN]), '[BIT-P]', 'E1 cgen+cbmc', 'transit(lon1, lon2) = floor((l1+lon12)/360) - floor(l1/360) on the integer-degree lattice |lon| <= 540, incl. +-0, +-180, +-360', timeout=630,
           bounds={'lon1, lon2': 'integers in [-540, 540] incl. -0'}),
        Ob('Q2.transitdirect', _cb('harness_transitdirect', [TD]), '[BIT-P]', 'E1 cgen+cbmc', 'transitdirect(lon1, lon2) has the parity of floor(lon2/360) - floor(lon1/360) for all doubles with |lon| < 1080', timeout=630, bounds={'lon1, lon2': 'all doubles in (-1080, 1080)'}),
        Ob('Q3.AddPoint.step', _cb('harness_addpoint', [P + '8AddPointEdd', TR], defines=['STEP'], stop=[AD, AN]), '[ABS] solvers opaque', 'E1 cgen+cbmc', 'AddPoint from an arbitrary state: count, current/start point, crossings += transit, polyline never touches area/crossings, configuration unchanged', timeout=630,
           bounds={'state': 'arbitrary', 'history length': 'any (inductive step)'}),
        Ob('Q3.AddEdge.step', _cb('harness_addedge', [P + '7AddEdgeEdd', TD], defines=['STEP'], stop=[AD, AN]), '[ABS] solvers opaque', 'E1 cgen+cbmc', 'AddEdge from an arbitrary state: no-op without a start point; otherwise moves to the edge end, crossings += transitdirect, polyline never touches area/crossings', timeout=630,
           bounds={'state': 'arbitrary'}),
        Ob('Q3.TestPoint.const', _cb('harness_const', [PK + '9TestPointEddbbRdS3_'], defines=['WHICH=0', 'STEP'], stop=[AD, AN], timeout=3000), '[ABS] solvers opaque', 'E1 cgen+cbmc', 'TestPoint leaves the polygon object unchanged (count, crossings, points, both words of both accumulators); polyline leaves the area argument untouched', timeout=3030, tier='thorough', mem_gb=24, bounds={'state': 'arbitrary'}),
        Ob('Q3.Compute.const', _cb('harness_const', [PK + '7ComputeEbbRdS3_'], defines=['WHICH=1', 'STEP'], stop=[AD, AN]), '[ABS] solvers opaque', 'E1 cgen+cbmc', 'Compute leaves the polygon object unchanged; polyline leaves the area argument untouched', timeout=630, bounds={'state': 'arbitrary'}),
    ]

def replay(rp):
    if rp['cex'].get('function') in ('harness_transit', 'harness_transitdirect'):
        return e1.replay(rp, W, use_wrapper_obj=True)
    return None, 'the state-step harnesses run with opaque solvers and an arbitrary object image: no concrete replay is built for them (the violation is reported as an unreproduced solver counterexample)'

MANIFEST = {
    'engine': 'E1',
    'technique': 'bounded model checking (cbmc) of C generated from the clang IR of PolygonArea.cpp + Math.cpp; inductive one-step obligations from an arbitrary polygon state with the solvers opaque',
    'text': 'Bounded solver verdicts on the real code: the two prime-meridian crossing counters equal their floor-formula definitions (transit on the exact integer-degree lattice incl. +-0/+-180/+-360, transitdirect for all |lon| < 1080); '
            'AddPoint/AddEdge update exactly the documented state from an arbitrary state (any history by induction), polylines never touch area/crossings, and TestPoint/Compute leave the object unchanged.',
    'note': 'Solvers opaque, so area values, first-vertex independence, additivity and tentative==committed are not decided; Geodesic instantiation only; transit outside the lattice relies on AngDiff exactness (C16). '
            'Trusted: clang-14, vfw/cgen, cbmc 6.11, libm contracts.',
}
