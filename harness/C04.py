#!/usr/bin/env python3
"""C04 — UTM/UPS: zone rules, ranges, frames, EPSG (E1: IR -> C -> cbmc)"""
import os
from vfw.run import Ob
from vfw import e1, build
from harness import common as H

W = 'w_UTMUPS'; HC = os.path.join(build.VERIF, 'harness', 'C04', 'c04.c')
U = '@_ZN13GeographicLib6UTMUPS'
ANG = '@_ZN13GeographicLib4Math12AngNormalizeIdEET_S2_'
ASSUMPTIONS = [
    'Math::AngNormalize is replaced by its contract (NaN for NaN/inf; value in [-180,180]; identity on [-180,180]); the function itself is checked under C16',
    'C04 quantifier: |lat| <= 90 or NaN (other latitudes are explored by C13)',
    'TransverseMercator / PolarStereographic Forward/Reverse are opaque (arbitrary outputs): closure to 5 nm is outside the claim',
    'exception message construction is cut at __cxa_allocate_exception (quick and thorough): the exception type is read from the eventual __cxa_throw',
]

def prepare(ctx):
    H.ir_module(ctx, W)

def _cb(fn, roots, **kw):
    _cb.last_timeout = kw.get('timeout', 300)
    def run(ctx):
        m = H.ir_module(ctx, W)
        return e1.cbmc_check(ctx, m, 'C04', roots, HC, stop=[ANG], function=fn, **kw)
    run.cbmc_timeout = kw.get('timeout', 300)
    return run

def obligations(ctx):
    obs = [
        Ob('Q1.StandardZone', _cb('harness_standardzone', [U + '12StandardZoneEddi'], unwind=62, timeout=300), '[BIT-P]', 'E1 cgen+cbmc',
           'UTMUPS::StandardZone == NGA zone rules (Norway, Svalbard, UPS limits, explicit zones, NaN -> INVALID, illegal setzone throws) for every double lat in [-90,90]|NaN, every double lon, every int setzone; float->int conversions in range',
           bounds={'lat': '[-90,90] or NaN', 'lon': 'all doubles', 'setzone': 'all 2^32 ints', 'unwind': 62}),
        Ob('Q2.CheckCoords', _cb('harness_checkcoords', [U + '11CheckCoordsEbbddbb'], unwind=4, timeout=300), '[BIT-P]', 'E1 cgen+cbmc',
           'UTMUPS::CheckCoords accepts exactly the documented closed rectangles (+-100 km unless mgrslimits), NaN accepted, throws GeographicErr iff throwp',
           bounds={'x,y': 'all doubles', 'flags': 'all 16 combinations'}),
        Ob('Q5.EPSG', _cb('harness_epsg', [U + '10EncodeEPSGEib', U + '10DecodeEPSGEiRiRb'], unwind=4, timeout=300), '[BIT]', 'E1 cgen+cbmc',
           'EncodeEPSG/DecodeEPSG are mutually inverse on valid zones and map everything else to -1 / INVALID, for all 2^32 ints',
           bounds={'epsg, zone': 'all 2^32 ints'}),
    ]
    obs += [
        Ob('Q3.Forward', _cb('harness_forward', [U + '7ForwardEddRiRbRdS3_S3_S3_ib'], unwind=62, timeout=600), '[BIT-P]', 'E1 cgen+cbmc',
           'UTMUPS::Forward: only GeographicErr; outputs untouched on throw; NaN -> INVALID + NaNs; zone = StandardZone; false origins 500/0/10000 km (UTM) and 2000 km (UPS); central meridian; gamma,k passed through; result inside the documented rectangle (projections opaque)',
           bounds={'lat,lon': 'all doubles', 'setzone': 'all ints', 'initial outputs': 'arbitrary'}),
        Ob('Q3.Reverse', _cb('harness_reverse', [U + '7ReverseEibddRdS1_S1_S1_b'], unwind=4, timeout=600), '[BIT-P]', 'E1 cgen+cbmc',
           'UTMUPS::Reverse: checks before use, only GeographicErr, outputs untouched on throw, INVALID/NaN -> NaNs, false origin removed exactly, dispatch on zone (projections opaque)',
           bounds={'zone': 'all ints', 'x,y': 'all doubles'}),
        Ob('Q4.Transfer', _cb('harness_transfer', [U + '8TransferEibddibRdS1_Ri'], unwind=62, timeout=600), '[BIT-P]', 'E1 cgen+cbmc',
           'UTMUPS::Transfer: outputs untouched on throw, only GeographicErr, UPS hemisphere change rejected, same-zone transfer is the identity up to the 10000 km hemisphere shift',
           bounds={'zones': 'all ints', 'x,y': 'all doubles'}),
    ]
    dz = U + '10DecodeZoneERKNSt7__cxx1112basic_stringIcSt11char_traitsIcESaIcEEERiRb'
    for n in (range(0, 9) if ctx['tier'] == 'thorough' else range(0, 7)):
        obs.append(Ob('Q6.DecodeZone.len%d' % n, _cb('harness_decodezone', [dz], unwind=12, timeout=300, defines=['SLEN=%d' % n, 'VF_STR_MAX=10', 'VF_MEM_MAX=10']), '[BIT]', 'E1 cgen+cbmc',
                      'UTMUPS::DecodeZone on every byte string of length %d: accepted iff in the documented grammar, decoded values, GeographicErr only, outputs untouched on throw, no out-of-bounds access' % n,
                      bounds={'string length': n, 'bytes': 'all 256 values incl. NUL'}))
    return obs

def replay(rp):
    r = e1.replay(rp, W)
    cex = rp.get('cex', {})
    if r[0] or cex.get('function') != 'harness_transfer': return r
    # the projections are opaque in the Transfer obligation, so the solver's coordinates need not drive the real projections down the same path:
    # retry with representative inputs for the throw that happens after the coordinates were converted (UPS position sent to the other hemisphere)
    for npin, npout in ((1, 0), (0, 1)):
        t = dict(rp); t['cex'] = dict(cex); inp = dict(cex.get('inputs', {}))
        inp.update({'in_zonein': 0, 'in_zoneout': -1, 'in_npin': npin, 'in_npout': npout, 'in_x': e1._dblval(2000000.0), 'in_y': e1._dblval(2100000.0), 'in_x0': e1._dblval(1.5), 'in_y0': e1._dblval(2.5), 'in_zone0': 7})
        t['cex']['inputs'] = inp
        r2 = e1.replay(t, W)
        if r2[0]: return r2
    return r

MANIFEST = {
    'engine': 'E1',
    'technique': 'bounded model checking (cbmc) of C generated from the clang IR of UTMUPS.cpp, against comparison-only reference models; counterexamples replayed under UBSan/ASan',
    'text': 'Bounded solver verdicts on the real code of UTMUPS.cpp: StandardZone equals the NGA zone rules for every double latitude in [-90,90]|NaN, every double longitude '
            '(through the AngNormalize contract) and every int setzone; CheckCoords accepts exactly the documented closed rectangles for every double; EPSG encode/decode '
            'are mutually inverse over all 2^32 ints; Forward/Reverse/Transfer frame and dispatch obligations with the projections opaque. Float->int conversions are range-asserted.',
    'note': 'Bit-precise for integers/compares/floor; projections (TM/PS) opaque, so the 5 nm closure and the values of convergence/scale are not decided; message construction on throw '
            'paths is cut. Trusted: clang-14, vfw/cgen (IR->C), cbmc 6.11, the libm contracts in stubs/fp_P.h.',
}
