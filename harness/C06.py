#!/usr/bin/env python3
"""C06 — transverse Mercator: Krueger series tables (E2)"""
import z3
from fractions import Fraction
from vfw.run import Ob
from vfw import series, rsym, poly
from harness import common as H
from harness import polyid
import harness.C15 as C15

W = 'w_TM'
CTOR = '@_ZN13GeographicLib18TransverseMercatorC2Edddbb'
ASSUMPTIONS = [
    '[REAL] obligations: exact real meaning of the floating-point operations; rounding/NaN/overflow outside the claim',
    'TransverseMercator constructor executed with a = k0 = 1, exact = extendp = false and f = 2n/(1+n) for symbolic n in (-1,1); Math::eatanhe, exp and the default-constructed TransverseMercatorExact member are opaque (they do not feed the series coefficients)',
    'oracles: b1 from the first-principles meridian-arc mean (vfw/series.py); alpha_j / beta_j from (i) the order-8 Krueger tables of TransverseMercator.cpp and (ii) the independently generated tables C[mu,chi], C[chi,mu] of AuxLatitude.cpp',
    'Forward/Reverse to nanometres, series-vs-exact agreement, the Newton inversions of TransverseMercatorExact are outside the claim (DESIGN.md §4)',
]

def prepare(ctx):
    H.ir_module(ctx, W); H.ir_module(ctx, W, defines=('GEOGRAPHICLIB_TRANSVERSEMERCATOR_ORDER=8',)); H.native(ctx, W)
    H.ir_module(ctx, C15.W)

def tm_coeffs(m, nsym, order, one=None):
    """run the constructor on symbolic n; returns (alp[1..order], bet[1..order], b1)"""
    offs = H.offsets(m, 'TransverseMercator'); size = H.sizeof(m, 'TransverseMercator')
    isp = getattr(nsym, '_vf_poly', False)
    opaque = {
        '@_ZN13GeographicLib4Math7eatanheIdEET_S2_S2_': lambda ex, a, mem: ex.freshreal('eatanhe') if not isp else poly.Poly.const(1, 0),
        '@_ZN13GeographicLib23TransverseMercatorExactC1Edddb': lambda ex, a, mem: None,
        '@_ZN13GeographicLib23TransverseMercatorExactC1Ev': lambda ex, a, mem: None,
        '@_ZN13GeographicLib16EllipticFunction5ResetEdddd': lambda ex, a, mem: None,
    }
    libm = {'exp': lambda ex, a, mem: ex.freshreal('exp') if not isp else poly.Poly.const(1, 0),
            'sqrt': (lambda ex, a, mem: poly.Poly.const(1, 0)) if isp else rsym.LIBM['sqrt'],
            'llvm.fabs.f64': (lambda ex, a, mem: a[0]) if isp else rsym.LIBM['fabs']}
    if isp:
        # oracle run: the constructor's guards are evaluated at the formal point n = 0 (f = 0): only the polynomial tables matter
        raise rsym.Unsupported('poly ctor run not used')
    f = 2 * nsym / (1 + nsym)
    ex = rsym.Exec(m, opaque=opaque, libm=libm, assume=[nsym > -1, nsym < 1])
    paths = ex.run_all(CTOR, lambda ex, mem: [ex.new_obj(mem, 'tm'), rsym.RV(1), f, rsym.RV(1), 0, 0])
    out = []
    for p in paths:
        cells = p.mem['tm']
        out.append((p.cond, [cells[offs['_alp'] + 8 * l] for l in range(1, order + 1)], [cells[offs['_bet'] + 8 * l] for l in range(1, order + 1)], cells[offs['_b1']]))
    return out, ex

def tm_tables_poly(m, order):
    """oracle run at order 8: evaluate the two coefficient loops directly on exact polynomials by executing the constructor with the
    validation guards decided at n = 0 (concrete f = 0, a = k0 = 1) is not possible (tables depend on n), so instead the constructor is run
    symbolically over z3 and the coefficients are read back as polynomials through exact interpolation at order+2 rational nodes."""
    n = z3.Real('n')
    runs, ex = tm_coeffs(m, n, order)
    # all paths give the same polynomial tables (paths differ only in sign(f)); take the first feasible one per node
    return runs, n

def interp_poly(term, var, cond, deg):
    """exact polynomial (in one variable) of a z3 term known to be a polynomial of degree <= deg, by Lagrange interpolation at small rational nodes"""
    xs = [Fraction(k, 16) for k in range(1, deg + 2)]
    ys = []
    for x in xs:
        v = H.zeval(term, [var], [x])
        if v is None: raise rsym.Unsupported('cannot evaluate term at %s' % x)
        ys.append(v)
    # Newton divided differences -> monomial coefficients
    P = poly.Poly.const(1, 0); X = poly.Poly.var(1, 0)
    coef = list(ys)
    for j in range(1, len(xs)):
        for i in range(len(xs) - 1, j - 1, -1): coef[i] = (coef[i] - coef[i - 1]) / (xs[i] - xs[i - j])
    basis = poly.Poly.const(1, 1)
    for j in range(len(xs)):
        P = P + basis * coef[j]; basis = basis * (X - xs[j])
    return P

def ob_tm_tables(ctx, which):
    m6 = H.ir_module(ctx, W); n = z3.Real('n')
    runs, ex = tm_coeffs(m6, n, 6)
    items = []; specs = {}; specq = {}; lab2 = {}
    # oracle terms
    if which == 'order8':
        m8 = H.ir_module(ctx, W, defines=('GEOGRAPHICLIB_TRANSVERSEMERCATOR_ORDER=8',))
        runs8, _ = tm_coeffs(m8, n, 8)
        cond8, alp8, bet8, b18 = runs8[0]
        pos = [r for r in runs8 if True][0]
        ref = {}
        for l in range(1, 7):
            ref[('alp', l)] = interp_poly(alp8[l - 1], n, None, 8).trunc(6).coeffs()
            ref[('bet', l)] = interp_poly(bet8[l - 1], n, None, 8).trunc(6).coeffs()
    elif which == 'auxlat':
        ma = H.ir_module(ctx, C15.W); na = n
        mu_chi = C15.coeff_terms(ma, na, 4, 3, 6)    # mu from chi  -> alpha
        chi_mu = C15.coeff_terms(ma, na, 3, 4, 6)    # chi from mu  -> -beta
        ref = {}
        for l in range(1, 7):
            ref[('alp', l)] = mu_chi[l - 1]; ref[('bet', l)] = -chi_mu[l - 1]
    t1, _ = series.geod_I1(6)
    g0 = dict(t1.coeff('c', 0)); g0[(0,)] = g0.get((0,), 0) + 1          # 1 + n^2/4 + n^4/64 + n^6/256
    res = None; tot = {'queries': 0, 'nontrivial': 0, 'solver_s': 0.0}
    for pi, (cond, alp, bet, b1) in enumerate(runs):
        assume = list(cond)
        for kind, arr in (('alp', alp), ('bet', bet)):
            its = []; sp = {}; sq = {}
            for l in range(1, 7):
                its.append((l, arr[l - 1]))
                r = ref[(kind, l)]
                if isinstance(r, dict): sq[l] = r; sp[l] = series.mono_poly_z3(r, [n])
                else: sp[l] = r
            nat = {'wrapper': W, 'fn': 'vf_tm_' + kind, 'sig': ['d', 'I'], 'result': 'ret'}
            def specval(pt, sp=sp): return {l: H.zeval(sp[l], [n], pt) for l in sp}
            r = polyid.check(ctx, 'TransverseMercator::_%s (path %d, oracle %s)' % (kind, pi, which), its, sp, [n], assume, nat, specq=sq if len(sq) == 6 else None,
                             specval=None if len(sq) == 6 else specval, maxdeg=6, points=lambda sd, k: H.rat_points(sd + 7, k, -0.6, 0.6, 1), abs_tol=(Fraction(1, 10**13) if which == 'auxlat' else None),
                             functions=['GeographicLib::TransverseMercator::TransverseMercator', 'GeographicLib::Math::polyval'])
            for k in tot: tot[k] += r.get(k, 0)
            if r['verdict'] != 'proved': r.update({k: tot[k] for k in ('queries', 'nontrivial')}); return r
            res = r
        if which == 'order8':
            spec_b1 = series.mono_poly_z3(g0, [n], 6) / (1 + n)
            def sv(pt): return {0: series.mono_poly_eval(g0, pt, 6) / (1 + pt[0])}
            nat = {'wrapper': W, 'fn': 'vf_tm_b1', 'sig': ['d'], 'result': 'ret'}
            r = polyid.check(ctx, 'TransverseMercator::_b1 (path %d, first principles)' % pi, [(0, b1)], {0: spec_b1}, [n], assume, nat, specval=sv,
                             points=lambda sd, k: H.rat_points(sd + 7, k, -0.6, 0.6, 1), functions=['GeographicLib::TransverseMercator::TransverseMercator'])
            for k in tot: tot[k] += r.get(k, 0)
            if r['verdict'] != 'proved': r.update({k: tot[k] for k in ('queries', 'nontrivial')}); return r
    res.update(tot); res['solver_s'] = round(tot['solver_s'], 4); res['bounds'] = {'constructor paths': len(runs)}
    return res

def obligations(ctx):
    return [
        Ob('Q1.tables.order8+b1', lambda ctx: ob_tm_tables(ctx, 'order8'), '[REAL]', 'E2 rsym+z3',
           'TransverseMercator constructor: alpha_1..6, beta_1..6 equal the truncated order-8 Krueger series; b1 equals the first-principles rectifying-radius series / (1+n)', timeout=600, bounds={'order': 6, 'n': '(-1,1)'}),
        Ob('Q1.tables.auxlatitude', lambda ctx: ob_tm_tables(ctx, 'auxlat'), '[REAL]', 'E2 rsym+z3',
           'alpha_j = C[mu,chi]_j and beta_j = -C[chi,mu]_j of AuxLatitude::fillcoeff within 1e-13 for all n in (-1,1) (two independently generated tables in two translation units; the tolerance absorbs the rounding of the pre-divided literals in AuxLatitude.cpp)', timeout=600, bounds={'order': 6, 'n': '(-1,1)'}),
    ]

def replay(rp):
    return polyid.replay(rp)

MANIFEST = {
    'engine': 'E2',
    'technique': 'symbolic execution of the TransverseMercator constructor IR over z3 reals (all feasible paths); polynomial identities in n against the order-8 tables, the AuxLatitude tables and the first-principles rectifying radius',
    'text': 'Bounded solver verdicts on the real code: the Krueger coefficients alpha_j, beta_j (two 27-entry tables) and b1 computed by the TransverseMercator constructor are obtained by symbolic execution of the IR for symbolic n '
            'and z3 decides equality with three independent sources (order-8 tables, AuxLatitude C[mu,chi]/C[chi,mu], first-principles meridian series). A wrong coefficient, divisor or offset is refuted with a concrete n replayed on a g++ build.',
    'note': 'Exact-real semantics, order 6 as compiled. Forward/Reverse round trip to nanometres, series-vs-exact agreement, TransverseMercatorExact Newton inversions and parity/back-side handling are not decided by these obligations. '
            'Trusted: clang-14, vfw/irparse+rsym (validated each run against the native build), z3, vfw/series.py.',
}
