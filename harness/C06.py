#!/usr/bin/env python3
"""C06 — transverse Mercator: Krueger series tables (E2)"""
import z3
from fractions import Fraction
from vfw.run import Ob
from vfw import series, rsym, poly
from harness import common as H
from harness import polyid
import harness.C15 as C15

W = 'w_TM'
CTOR = '@_ZN13GeographicLib18TransverseMercatorC2Edddbb'
ASSUMPTIONS = [
    'Reverse parity obligations: series mode (_exact = false), arbitrary object members with _a1, _k0 > 0; sin, cos, sinh, cosh, tanh, atan2, hypot, cabs, sqrt, tauf, atand, atan2d are deterministic uninterpreted functions, AngNormalize is the identity (angles modulo 360) (the Clenshaw sums are executed symbolically, complex products by their definition); two symbolic runs on a point with x, y > 0 and its mirror image are compared path pair by path pair; the values of latitude/longitude themselves (accuracy, Newton convergence) are outside the claim',
    '[REAL] obligations: exact real meaning of the floating-point operations; rounding/NaN/overflow outside the claim',
    'TransverseMercator constructor executed with a = k0 = 1, exact = extendp = false and f = 2n/(1+n) for symbolic n in (-1,1); Math::eatanhe, exp and the default-constructed TransverseMercatorExact member are opaque (they do not feed the series coefficients)',
    'oracles: b1 from the first-principles meridian-arc mean (vfw/series.py); alpha_j / beta_j from (i) the order-8 Krueger tables of TransverseMercator.cpp and (ii) the independently generated tables C[mu,chi], C[chi,mu] of AuxLatitude.cpp',
    'Forward/Reverse to nanometres, series-vs-exact agreement, the Newton inversions of TransverseMercatorExact are outside the claim (DESIGN.md §4)',
]

def prepare(ctx):
    H.ir_module(ctx, W); H.ir_module(ctx, W, defines=('GEOGRAPHICLIB_TRANSVERSEMERCATOR_ORDER=8',)); H.native(ctx, W)
    H.ir_module(ctx, C15.W)

def tm_coeffs(m, nsym, order, one=None):
    """run the constructor on symbolic n; returns (alp[1..order], bet[1..order], b1)"""
    offs = H.offsets(m, 'TransverseMercator'); size = H.sizeof(m, 'TransverseMercator')
    isp = getattr(nsym, '_vf_poly', False)
    opaque = {
        '@_ZN13GeographicLib4Math7eatanheIdEET_S2_S2_': lambda ex, a, mem: ex.freshreal('eatanhe') if not isp else poly.Poly.const(1, 0),
        '@_ZN13GeographicLib23TransverseMercatorExactC1Edddb': lambda ex, a, mem: None,
        '@_ZN13GeographicLib23TransverseMercatorExactC1Ev': lambda ex, a, mem: None,
        '@_ZN13GeographicLib16EllipticFunction5ResetEdddd': lambda ex, a, mem: None,
    }
    libm = {'exp': lambda ex, a, mem: ex.freshreal('exp') if not isp else poly.Poly.const(1, 0),
            'sqrt': (lambda ex, a, mem: poly.Poly.const(1, 0)) if isp else rsym.LIBM['sqrt'],
            'llvm.fabs.f64': (lambda ex, a, mem: a[0]) if isp else rsym.LIBM['fabs']}
    if isp:
        # oracle run: the constructor's guards are evaluated at the formal point n = 0 (f = 0): only the polynomial tables matter
        raise rsym.Unsupported('poly ctor run not used')
    f = 2 * nsym / (1 + nsym)
    ex = rsym.Exec(m, opaque=opaque, libm=libm, assume=[nsym > -1, nsym < 1])
    paths = ex.run_all(CTOR, lambda ex, mem: [ex.new_obj(mem, 'tm'), rsym.RV(1), f, rsym.RV(1), 0, 0])
    out = []
    for p in paths:
        cells = p.mem['tm']
        out.append((p.cond, [cells[offs['_alp'] + 8 * l] for l in range(1, order + 1)], [cells[offs['_bet'] + 8 * l] for l in range(1, order + 1)], cells[offs['_b1']]))
    return out, ex

def tm_tables_poly(m, order):
    """oracle run at order 8: evaluate the two coefficient loops directly on exact polynomials by executing the constructor with the
    validation guards decided at n = 0 (concrete f = 0, a = k0 = 1) is not possible (tables depend on n), so instead the constructor is run
    symbolically over z3 and the coefficients are read back as polynomials through exact interpolation at order+2 rational nodes."""
    n = z3.Real('n')
    runs, ex = tm_coeffs(m, n, order)
    # all paths give the same polynomial tables (paths differ only in sign(f)); take the first feasible one per node
    return runs, n

def interp_poly(term, var, cond, deg):
    """exact polynomial (in one variable) of a z3 term known to be a polynomial of degree <= deg, by Lagrange interpolation at small rational nodes"""
    xs = [Fraction(k, 16) for k in range(1, deg + 2)]
    ys = []
    for x in xs:
        v = H.zeval(term, [var], [x])
        if v is None: raise rsym.Unsupported('cannot evaluate term at %s' % x)
        ys.append(v)
    # Newton divided differences -> monomial coefficients
    P = poly.Poly.const(1, 0); X = poly.Poly.var(1, 0)
    coef = list(ys)
    for j in range(1, len(xs)):
        for i in range(len(xs) - 1, j - 1, -1): coef[i] = (coef[i] - coef[i - 1]) / (xs[i] - xs[i - j])
    basis = poly.Poly.const(1, 1)
    for j in range(len(xs)):
        P = P + basis * coef[j]; basis = basis * (X - xs[j])
    return P

def ob_tm_tables(ctx, which):
    m6 = H.ir_module(ctx, W); n = z3.Real('n')
    runs, ex = tm_coeffs(m6, n, 6)
    items = []; specs = {}; specq = {}; lab2 = {}
    # oracle terms
    if which == 'order8':
        m8 = H.ir_module(ctx, W, defines=('GEOGRAPHICLIB_TRANSVERSEMERCATOR_ORDER=8',))
        runs8, _ = tm_coeffs(m8, n, 8)
        cond8, alp8, bet8, b18 = runs8[0]
        pos = [r for r in runs8 if True][0]
        ref = {}
        for l in range(1, 7):
            ref[('alp', l)] = interp_poly(alp8[l - 1], n, None, 8).trunc(6).coeffs()
            ref[('bet', l)] = interp_poly(bet8[l - 1], n, None, 8).trunc(6).coeffs()
    elif which == 'auxlat':
        ma = H.ir_module(ctx, C15.W); na = n
        mu_chi = C15.coeff_terms(ma, na, 4, 3, 6)    # mu from chi  -> alpha
        chi_mu = C15.coeff_terms(ma, na, 3, 4, 6)    # chi from mu  -> -beta
        ref = {}
        for l in range(1, 7):
            ref[('alp', l)] = mu_chi[l - 1]; ref[('bet', l)] = -chi_mu[l - 1]
    t1, _ = series.geod_I1(6)
    g0 = dict(t1.coeff('c', 0)); g0[(0,)] = g0.get((0,), 0) + 1          # 1 + n^2/4 + n^4/64 + n^6/256
    res = None; tot = {'queries': 0, 'nontrivial': 0, 'solver_s': 0.0}
    for pi, (cond, alp, bet, b1) in enumerate(runs):
        assume = list(cond)
        for kind, arr in (('alp', alp), ('bet', bet)):
            its = []; sp = {}; sq = {}
            for l in range(1, 7):
                its.append((l, arr[l - 1]))
                r = ref[(kind, l)]
                if isinstance(r, dict): sq[l] = r; sp[l] = series.mono_poly_z3(r, [n])
                else: sp[l] = r
            nat = {'wrapper': W, 'fn': 'vf_tm_' + kind, 'sig': ['d', 'I'], 'result': 'ret'}
            def specval(pt, sp=sp): return {l: H.zeval(sp[l], [n], pt) for l in sp}
            r = polyid.check(ctx, 'TransverseMercator::_%s (path %d, oracle %s)' % (kind, pi, which), its, sp, [n], assume, nat, specq=sq if len(sq) == 6 else None,
                             specval=None if len(sq) == 6 else specval, maxdeg=6, points=lambda sd, k: H.rat_points(sd + 7, k, -0.6, 0.6, 1), abs_tol=(Fraction(1, 10**13) if which == 'auxlat' else None),
                             functions=['GeographicLib::TransverseMercator::TransverseMercator', 'GeographicLib::Math::polyval'])
            for k in tot: tot[k] += r.get(k, 0)
            if r['verdict'] != 'proved': r.update({k: tot[k] for k in ('queries', 'nontrivial')}); return r
            res = r
        if which == 'order8':
            spec_b1 = series.mono_poly_z3(g0, [n], 6) / (1 + n)
            def sv(pt): return {0: series.mono_poly_eval(g0, pt, 6) / (1 + pt[0])}
            nat = {'wrapper': W, 'fn': 'vf_tm_b1', 'sig': ['d'], 'result': 'ret'}
            r = polyid.check(ctx, 'TransverseMercator::_b1 (path %d, first principles)' % pi, [(0, b1)], {0: spec_b1}, [n], assume, nat, specval=sv,
                             points=lambda sd, k: H.rat_points(sd + 7, k, -0.6, 0.6, 1), functions=['GeographicLib::TransverseMercator::TransverseMercator'])
            for k in tot: tot[k] += r.get(k, 0)
            if r['verdict'] != 'proved': r.update({k: tot[k] for k in ('queries', 'nontrivial')}); return r
    res.update(tot); res['solver_s'] = round(tot['solver_s'], 4); res['bounds'] = {'constructor paths': len(runs)}
    return res

# ---- TransverseMercator::Reverse: parity bookkeeping (xisign / etasign / backside) decided as symmetry of two symbolic runs
TMR = '@_ZNK13GeographicLib18TransverseMercator7ReverseEdddRdS1_S1_S1_'
def _tm_run(ctx, xs, ys, extra=()):
    import z3
    from vfw import rsym
    m = H.ir_module(ctx, W); o = H.offsets(m, 'TransverseMercator'); lon0 = z3.Real('lon0')
    cells = {off: z3.Real('TM_%d' % off) for off in range(0, H.sizeof(m, 'TransverseMercator'), 8)}
    cells[o['_exact']] = 0
    def U(name, n): return lambda ex, a, mem: ex.UF(name, n)(*a[:n])
    def an(ex, a, mem): return a[0]        # AngNormalize changes its argument by a multiple of 360 only: identity in this model (claims are modulo 360)
    def muldc3(ex, a, mem): return [a[0] * a[2] - a[1] * a[3], a[0] * a[3] + a[1] * a[2]]
    a1, k0 = cells[o['_a1']], cells[o['_k0']]
    ex = rsym.Exec(m, opaque={'@_ZN13GeographicLib4Math12AngNormalizeIdEET_S2_': an, '@_ZN13GeographicLib4Math4taufIdEET_S2_S2_': U('tauf', 2), '@_ZN13GeographicLib4Math5atandIdEET_S2_': U('atand', 1),
                              '@_ZN13GeographicLib4Math6atan2dIdEET_S2_S2_': U('atan2d', 2)},
                    libm={'__muldc3': muldc3, 'cabs': U('cabs', 2), 'hypot': U('hypot', 2), 'sqrt': U('sqrt', 1), 'sin': U('sin', 1), 'cos': U('cos', 1), 'sinh': U('sinh', 1), 'cosh': U('cosh', 1), 'tanh': U('tanh', 1), 'atan2': U('atan2', 2)},
                    assume=[a1 > 0, k0 > 0] + list(extra), path_cap=128)
    paths = ex.run_all(TMR, lambda ex, mem: [ex.new_obj(mem, 'obj', dict(cells)), lon0, xs, ys, ex.new_obj(mem, 'o'), rsym.Ptr('o', 8), rsym.Ptr('o', 16), rsym.Ptr('o', 24)])
    return paths, lon0

def ob_tm_parity(ctx, which):
    import z3
    from vfw import rsym
    x, y = z3.Real('x'), z3.Real('y'); base = [x > 0, y > 0]
    A, lon0 = _tm_run(ctx, x, y, base)
    B, _ = _tm_run(ctx, -x if which == 'eta' else x, y if which == 'eta' else -y, base)
    q = 0; ss = 0.0; bad = None; unk = []; pairs = 0
    s = z3.Solver(); s.set('timeout', 5000)
    for pa in A:
        for pb in B:
            cond = base + list(pa.cond) + list(pb.cond)
            # the two runs branch on the same (normalised) terms: a pair whose decisions contradict each other syntactically is infeasible
            ka = {z3.simplify(c).sexpr() for c in pa.cond}; kb = {z3.simplify(c).sexpr() for c in pb.cond}
            if any(z3.simplify(z3.Not(c)).sexpr() in kb for c in pa.cond): continue
            if ka != kb:
                s.push(); s.add(*cond); feas = s.check(); s.pop()
                if feas == z3.unsat: continue
            pairs += 1
            la, lb = pa.mem['o'], pb.mem['o']; ana, anb = [la[8], la[16]], [lb[8], lb[16]]
            if which == 'eta':     # x -> -x : mirror in the central meridian
                claims = [('latitude unchanged', la[0] == lb[0]), ('longitude relative to the central meridian changes sign', ana[0] - lon0 == -(anb[0] - lon0)), ('convergence changes sign', ana[1] == -anb[1]), ('scale unchanged', la[24] == lb[24])]
            else:                  # y -> -y : mirror in the equator
                claims = [('latitude changes sign', la[0] == -lb[0]), ('longitude unchanged', ana[0] == anb[0]), ('convergence changes sign', ana[1] == -anb[1]), ('scale unchanged', la[24] == lb[24])]
            for nm, c in claims:
                c = z3.simplify(c)
                st, model, dt = rsym.prove(c, cond, timeout_ms=30000); q += 1; ss += dt
                if st == 'sat' and bad is None: bad = {'kind': 'tmparity', 'which': which, 'claim': nm}
                elif st == 'unknown': unk.append(nm)
    r = {'queries': q, 'nontrivial': q, 'solver_s': round(ss, 3), 'functions': ['GeographicLib::TransverseMercator::Reverse'], 'bounds': {'x, y': '> 0 against the mirrored point', 'paths': [len(A), len(B)], 'feasible path pairs': pairs, 'object': 'arbitrary members, series mode'}}
    if bad: r.update({'verdict': 'violated', 'detail': 'TransverseMercator::Reverse, mirror in the %s: "%s" refuted' % ('central meridian' if which == 'eta' else 'equator', bad['claim']), 'cex': bad})
    elif unk: r.update({'verdict': 'inconclusive', 'detail': 'unknown: %r' % unk[:5]})
    elif pairs == 0: r.update({'verdict': 'inconclusive', 'detail': 'no feasible path pair'})
    else: r['verdict'] = 'proved'
    return r

def replay_tmparity(cex):
    import ctypes
    lib = H.native({}, W); f = lib.vf_tm_reverse; f.restype = None; f.argtypes = [ctypes.c_double] * 3 + [ctypes.c_void_p]
    worst = 0; msg = ''
    for (x, y) in ((300000.0, 4000000.0), (250000.0, 12000000.0), (80000.0, 10500000.0), (500000.0, 15000000.0)):
        a = (ctypes.c_double * 4)(); b = (ctypes.c_double * 4)()
        f(7.0, x, y, a); f(7.0, -x if cex['which'] == 'eta' else x, y if cex['which'] == 'eta' else -y, b)
        nrm = lambda d: (d + 180.0) % 360.0 - 180.0
        if cex['which'] == 'eta': dev = max(abs(a[0] - b[0]), abs(nrm((a[1] - 7.0) + (b[1] - 7.0))), abs(nrm(a[2] + b[2])), abs(a[3] - b[3]))
        else: dev = max(abs(a[0] + b[0]), abs(nrm(a[1] - b[1])), abs(nrm(a[2] + b[2])), abs(a[3] - b[3]))
        if dev > worst: worst = dev; msg = '(x, y) = (%g, %g): Reverse gives (lat, lon, gamma, k) = (%.6f, %.6f, %.6f, %.6f), the mirrored point (%.6f, %.6f, %.6f, %.6f)' % (x, y, a[0], a[1], a[2], a[3], b[0], b[1], b[2], b[3])
    return worst > 1e-6, 'TransverseMercator::UTM().Reverse(lon0 = 7) on the real code, mirror in the %s: largest asymmetry %.3g; %s' % ('central meridian' if cex['which'] == 'eta' else 'equator', worst, msg)

def obligations(ctx):
    par = [Ob('Q2.Reverse.parity.%s' % w, (lambda ctx, w=w: ob_tm_parity(ctx, w)), '[REAL]', 'E2 rsym+z3', 'TransverseMercator::Reverse (series): mirroring the point in the %s changes only the documented signs (latitude / longitude offset / convergence), incl. points on the far side (xi > pi/2)' % ('central meridian' if w == 'eta' else 'equator'), timeout=900) for w in ('eta', 'xi')]
    return par + [
        Ob('Q1.tables.order8+b1', lambda ctx: ob_tm_tables(ctx, 'order8'), '[REAL]', 'E2 rsym+z3',
           'TransverseMercator constructor: alpha_1..6, beta_1..6 equal the truncated order-8 Krueger series; b1 equals the first-principles rectifying-radius series / (1+n)', timeout=600, bounds={'order': 6, 'n': '(-1,1)'}),
        Ob('Q1.tables.auxlatitude', lambda ctx: ob_tm_tables(ctx, 'auxlat'), '[REAL]', 'E2 rsym+z3',
           'alpha_j = C[mu,chi]_j and beta_j = -C[chi,mu]_j of AuxLatitude::fillcoeff within 1e-13 for all n in (-1,1) (two independently generated tables in two translation units; the tolerance absorbs the rounding of the pre-divided literals in AuxLatitude.cpp)', timeout=600, bounds={'order': 6, 'n': '(-1,1)'}),
    ]

def replay(rp):
    if rp['cex'].get('kind') == 'tmparity': return replay_tmparity(rp['cex'])
    return polyid.replay(rp)

MANIFEST = {
    'engine': 'E2',
    'technique': 'symbolic execution of the TransverseMercator constructor IR over z3 reals (all feasible paths); polynomial identities in n against the order-8 tables, the AuxLatitude tables and the first-principles rectifying radius',
    'text': 'Bounded solver verdicts on the real code: the Krueger coefficients alpha_j, beta_j (two 27-entry tables) and b1 computed by the TransverseMercator constructor are obtained by symbolic execution of the IR for symbolic n '
            'and z3 decides equality with three independent sources (order-8 tables, AuxLatitude C[mu,chi]/C[chi,mu], first-principles meridian series). A wrong coefficient, divisor or offset is refuted with a concrete n replayed on a g++ build. TransverseMercator::Reverse (series): mirroring a point in the central meridian or the equator changes only the documented signs, incl. far-side points (two symbolic runs compared).',
    'note': 'Exact-real semantics, order 6 as compiled. Forward/Reverse round trip to nanometres, series-vs-exact agreement, TransverseMercatorExact and the Forward parity/back-side handling are not decided by these obligations. '
            'Trusted: clang-14, vfw/irparse+rsym (validated each run against the native build), z3, vfw/series.py.',
}
