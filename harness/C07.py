#!/usr/bin/env python3
"""C07 — geocentric and local cartesian conversions (E2: exact real semantics)"""
import z3, ctypes, math
from fractions import Fraction
from vfw.run import Ob
from vfw import rsym
from harness import common as H

W = 'w_Geocentric'
GC = '_ZNK13GeographicLib10Geocentric'; LC = '_ZNK13GeographicLib14LocalCartesian'
SINCOSD = '@_ZN13GeographicLib4Math7sincosdIdEEvT_RS2_S3_'; ATAN2D = '@_ZN13GeographicLib4Math6atan2dIdEET_S2_S2_'
ASSUMPTIONS = [
    '[REAL] obligations: exact real meaning of the floating-point operations; rounding/overflow/NaN outside the claim',
    'Math::sincosd(x) is opaque: it yields a pair (s, c) with s^2 + c^2 = 1 (one fresh pair per call); Math::atan2d is an uninterpreted function; sqrt/cbrt/hypot by their defining equations',
    'Geocentric::IntReverse: that the computed root u solves the resolvent cubic (nested radicals) and that the returned height has least magnitude are not decided; round-off claims are outside',
]

def prepare(ctx):
    H.ir_module(ctx, W); H.native(ctx, W)

def geoc_obj(ex, mem, m, a, f):
    o = H.offsets(m, 'Geocentric'); e2 = f * (2 - f)
    return ex.new_obj(mem, 'geoc', {o['_a']: a, o['_f']: f, o['_e2']: e2, o['_e2m']: (1 - f) * (1 - f), o['_e2a']: z3.If(e2 >= 0, e2, -e2), o['_e4a']: e2 * e2, o['_maxrad']: a * rsym.RV(2 ** 53)})

class SC:
    """opaque sincosd: fresh (s, c) with s^2 + c^2 = 1 per call"""
    def __init__(s): s.pairs = []
    def __call__(s, ex, args, mem):
        k = len(s.pairs); sv, cv = z3.Real('sin%d' % k), z3.Real('cos%d' % k)
        ex.cur.cond.append(sv * sv + cv * cv == 1)
        ex.store(mem, args[1], None, sv); ex.store(mem, args[2], None, cv); s.pairs.append((args[0], sv, cv)); return None

def ob_forward(ctx):
    m = H.ir_module(ctx, W); a, f, lat, lon, h = [z3.Real(x) for x in ('a', 'f', 'lat', 'lon', 'h')]
    sc = SC()
    ex = rsym.Exec(m, opaque={SINCOSD: sc}, assume=[a > 0, f < 1, lat >= -90, lat <= 90])
    def mk(ex, mem):
        sc.pairs = []
        out = ex.new_obj(mem, 'out'); M = ex.new_obj(mem, 'M')
        return [geoc_obj(ex, mem, m, a, f), lat, lon, h, rsym.Ptr('out', 0), rsym.Ptr('out', 8), rsym.Ptr('out', 16), M]
    paths = ex.run_all('@' + GC + '10IntForwardEdddRdS1_S1_Pd', mk)
    q = 0; ss = 0.0; bad = None; unk = []
    for p in paths:
        (_, sphi, cphi), (_, slam, clam) = p.pairs if hasattr(p, 'pairs') else sc.pairs[:2]
        X, Y, Z = [p.mem['out'][8 * i] for i in range(3)]; M = [p.mem['M'][8 * i] for i in range(9)]
        e2 = f * (2 - f)
        N = z3.Real('Nspec')
        cond = list(p.cond) + [N > 0, N * N * (1 - e2 * sphi * sphi) == a * a]       # N = a / sqrt(1 - e^2 sin^2 phi)
        claims = [('X', X == (N + h) * cphi * clam), ('Y', Y == (N + h) * cphi * slam), ('Z', Z == ((1 - e2) * N + h) * sphi),
                  ('M east', z3.And(M[0] == -slam, M[3] == clam, M[6] == 0)), ('M north', z3.And(M[1] == -clam * sphi, M[4] == -slam * sphi, M[7] == cphi)),
                  ('M up', z3.And(M[2] == clam * cphi, M[5] == slam * cphi, M[8] == sphi))]
        for nm, cl in claims:
            st, model, dt = rsym.prove(cl, cond, timeout_ms=60000); q += 1; ss += dt
            if st == 'sat' and bad is None: bad = {'claim': nm, 'kind': 'forward', 'a': str(rsym.model_value(model, a)), 'f': str(rsym.model_value(model, f))}
            elif st == 'unknown': unk.append(nm)
    return _res(q, len(paths) * 6, ss, bad, unk, ['GeographicLib::Geocentric::IntForward', 'GeographicLib::Geocentric::Rotation'], {'paths': len(paths)})

def _res(q, nt, ss, bad, unk, funcs, bounds):
    r = {'queries': q, 'nontrivial': nt, 'solver_s': round(ss, 3), 'functions': funcs, 'bounds': bounds}
    if bad: r.update({'verdict': 'violated', 'detail': 'claim %s refuted' % bad['claim'], 'cex': bad})
    elif unk: r.update({'verdict': 'inconclusive', 'detail': 'solver unknown: %r' % unk})
    else: r['verdict'] = 'proved'
    return r

def ob_rotation(ctx):
    m = H.ir_module(ctx, W); sp, cp, sl, cl = [z3.Real(x) for x in ('sp', 'cp', 'sl', 'cl')]
    ex = rsym.Exec(m)
    paths = ex.run_all('@_ZN13GeographicLib10Geocentric8RotationEddddPd', lambda ex, mem: [sp, cp, sl, cl, ex.new_obj(mem, 'M')])
    M = [paths[0].mem['M'][8 * i] for i in range(9)]
    A = [sp * sp + cp * cp == 1, sl * sl + cl * cl == 1]
    q = 0; ss = 0.0; bad = None; unk = []
    def dot(i, j): return sum(M[3 * k + i] * M[3 * k + j] for k in range(3))
    claims = [('orthonormal %d%d' % (i, j), dot(i, j) == (1 if i == j else 0)) for i in range(3) for j in range(i, 3)]
    det = (M[0] * (M[4] * M[8] - M[5] * M[7]) - M[1] * (M[3] * M[8] - M[5] * M[6]) + M[2] * (M[3] * M[7] - M[4] * M[6]))
    claims.append(('det = +1', det == 1))
    for nm, cl in claims:
        st, model, dt = rsym.prove(cl, A, timeout_ms=60000); q += 1; ss += dt
        if st == 'sat' and bad is None: bad = {'claim': nm, 'kind': 'rotation'}
        elif st == 'unknown': unk.append(nm)
    return _res(q, len(claims), ss, bad, unk, ['GeographicLib::Geocentric::Rotation'], {})

def ob_local(ctx):
    """LocalCartesian: IntReverse undoes IntForward in geocentric coordinates for every orthonormal _r and origin; MatrixMultiply is r^T . M"""
    m = H.ir_module(ctx, W); o = H.offsets(m, 'LocalCartesian')
    r = [z3.Real('r%d' % i) for i in range(9)]; x0 = [z3.Real('o%d' % i) for i in range(3)]
    G = [z3.Real('g%d' % i) for i in range(3)]
    orth = [sum(r[3 * k + i] * r[3 * k + j] for k in range(3)) == (1 if i == j else 0) for i in range(3) for j in range(i, 3)]
    orth += [sum(r[3 * i + k] * r[3 * j + k] for k in range(3)) == (1 if i == j else 0) for i in range(3) for j in range(i, 3)]
    def fwd(ex, args, mem):
        for i in range(3): ex.store(mem, args[4 + i], None, G[i])
        return None
    rec = {}
    def rev(ex, args, mem):
        rec['args'] = args[1:4]
        for i in range(3): ex.store(mem, args[4 + i], None, z3.Real('rv%d' % i))
        return None
    cells = {o['_x0']: x0[0], o['_y0']: x0[1], o['_z0']: x0[2]}
    for i in range(9): cells[o['_r'] + 8 * i] = r[i]
    ex = rsym.Exec(m, opaque={'@' + GC + '10IntForwardEdddRdS1_S1_Pd': fwd, '@' + GC + '10IntReverseEdddRdS1_S1_Pd': rev})
    lat, lon, h = z3.Real('lat'), z3.Real('lon'), z3.Real('h')
    p1 = ex.run_all('@' + LC + '10IntForwardEdddRdS1_S1_Pd', lambda ex, mem: [ex.new_obj(mem, 'lc', cells), lat, lon, h, ex.new_obj(mem, 'o'), rsym.Ptr('o', 8), rsym.Ptr('o', 16), rsym.Ptr(None, 0)])
    assert len(p1) == 1
    xyz = [p1[0].mem['o'][8 * i] for i in range(3)]
    p2 = ex.run_all('@' + LC + '10IntReverseEdddRdS1_S1_Pd', lambda ex, mem: [ex.new_obj(mem, 'lc', cells)] + xyz + [ex.new_obj(mem, 'o'), rsym.Ptr('o', 8), rsym.Ptr('o', 16), rsym.Ptr(None, 0)])
    assert len(p2) == 1
    q = 0; ss = 0.0; bad = None; unk = []
    # step (a): polynomial identities WITHOUT assumptions, with D_ik = sum_j r[3i+j] r[3k+j] (row Gram matrix) kept as expressions;
    # step (b): under orthonormality D = I, which makes each right-hand side the claimed value (linear substitution, also decided by z3)
    D = [[sum(r[3 * i + j] * r[3 * k + j] for j in range(3)) for k in range(3)] for i in range(3)]
    w = [G[i] - x0[i] for i in range(3)]
    claims = [('Reverse(Forward) = x0 + (r r^T)(G - x0), component %d' % i, rec['args'][i] == x0[i] + sum(D[i][k] * w[k] for k in range(3)), []) for i in range(3)]
    claims.append(('|Forward|^2 = w^T (r r^T) w', sum(xyz[i] * xyz[i] for i in range(3)) == sum(w[i] * w[k] * D[i][k] for i in range(3) for k in range(3)), []))
    claims.append(('origin maps to 0', z3.And(*[z3.substitute(xyz[i], *[(G[k], x0[k]) for k in range(3)]) == 0 for i in range(3)]), []))
    d = [[z3.Real('d%d%d' % (i, k)) for k in range(3)] for i in range(3)]; dI = [d[i][k] == (1 if i == k else 0) for i in range(3) for k in range(3)]
    claims += [('(b) D = I gives the identity, component %d' % i, x0[i] + sum(d[i][k] * w[k] for k in range(3)) == G[i], dI) for i in range(3)]
    claims.append(('(b) D = I gives |w|^2', sum(w[i] * w[k] * d[i][k] for i in range(3) for k in range(3)) == sum(w[i] * w[i] for i in range(3)), dI))
    for nm, cl, asm in claims:
        st, model, dt = rsym.prove(cl, asm, timeout_ms=120000); q += 1; ss += dt
        if st == 'sat' and bad is None: bad = {'claim': nm, 'kind': 'local'}
        elif st == 'unknown': unk.append(nm)
    # MatrixMultiply: M' = r^T . M
    Mv = [z3.Real('m%d' % i) for i in range(9)]
    p3 = ex.run_all('@' + LC + '14MatrixMultiplyEPd', lambda ex, mem: [ex.new_obj(mem, 'lc', cells), ex.new_obj(mem, 'M', {8 * i: Mv[i] for i in range(9)})])
    Mo = [p3[0].mem['M'][8 * i] for i in range(9)]
    for i in range(9):
        row, col = i // 3, i % 3
        st, model, dt = rsym.prove(Mo[i] == sum(r[3 * k + row] * Mv[3 * k + col] for k in range(3)), [], timeout_ms=30000); q += 1; ss += dt
        if st == 'sat' and bad is None: bad = {'claim': 'MatrixMultiply[%d]' % i, 'kind': 'local'}
        elif st == 'unknown': unk.append('MM%d' % i)
    return _res(q, q, ss, bad, unk, ['GeographicLib::LocalCartesian::IntForward', 'GeographicLib::LocalCartesian::IntReverse', 'GeographicLib::LocalCartesian::MatrixMultiply'], {})

def ob_reverse_frame(ctx):
    """IntReverse, every path: the rotation matrix handed back is the east-north-up frame AT THE RETURNED latitude and longitude:
    lat = atan2d(M[8], M[7]) and lon = atan2d(-M[0], M[3]) as terms (atan2d uninterpreted), M = Rotation(sphi, cphi, slam, clam) with unit vectors"""
    m = H.ir_module(ctx, W); a, f, X, Y, Z = [z3.Real(x) for x in ('a', 'f', 'X', 'Y', 'Z')]
    at = z3.Function('atan2d', z3.RealSort(), z3.RealSort(), z3.RealSort())
    libm = {'hypot': lambda ex, args, mem: ex.UF('hypot', 2)(args[0], args[1]), 'cbrt': lambda ex, args, mem: ex.UF('cbrt', 1)(args[0]),
            'sqrt': lambda ex, args, mem: (rsym.LIBM['sqrt'](ex, args, mem) if z3.is_rational_value(args[0]) else ex.UF('sqrt', 1)(args[0])),
            'llvm.maxnum.f64': lambda ex, args, mem: z3.If(args[0] >= args[1], args[0], args[1])}
    ex = rsym.Exec(m, opaque={ATAN2D: lambda ex, args, mem: at(args[0], args[1])}, libm=libm, assume=[a > 0, f < 1], path_cap=400, timeout_ms=800)
    def mk(ex, mem):
        return [geoc_obj(ex, mem, m, a, f), X, Y, Z, ex.new_obj(mem, 'out'), rsym.Ptr('out', 8), rsym.Ptr('out', 16), ex.new_obj(mem, 'M')]
    paths = ex.run_all('@' + GC + '10IntReverseEdddRdS1_S1_Pd', mk)
    q = 0; ss = 0.0; bad = None; unk = []
    for pi, p in enumerate(paths):
        lat, lon = p.mem['out'][0], p.mem['out'][8]; M = [p.mem['M'][8 * i] for i in range(9)]
        for nm, cl in (('lat is the latitude of the frame', lat == at(M[8], M[7])), ('lon is the longitude of the frame', lon == at(-M[0], M[3]))):
            d = z3.simplify(cl)
            if z3.is_true(d): q += 1; continue
            st, model, dt = rsym.prove(cl, list(p.cond), timeout_ms=20000); q += 1; ss += dt
            if st == 'sat' and bad is None:
                bad = {'claim': nm, 'kind': 'reverse_frame', 'path': pi, 'a': str(rsym.model_value(model, a)), 'f': str(rsym.model_value(model, f)),
                       'X': str(rsym.model_value(model, X)), 'Y': str(rsym.model_value(model, Y)), 'Z': str(rsym.model_value(model, Z))}
            elif st == 'unknown': unk.append((pi, nm))
    return _res(q, len(paths) * 2, ss, bad, unk, ['GeographicLib::Geocentric::IntReverse', 'GeographicLib::Geocentric::Rotation'], {'paths': len(paths), 'path cap': 400})

def obligations(ctx):
    return [
        Ob('Q1.Forward', ob_forward, '[REAL]', 'E2 rsym+z3', 'Geocentric::IntForward = ((N+h) cos(phi) cos(lam), (N+h) cos(phi) sin(lam), (N(1-e^2)+h) sin(phi)), N = a/sqrt(1-e^2 sin^2 phi), and M = east/north/up, for every a > 0, f < 1', timeout=300),
        Ob('Q2.Rotation', ob_rotation, '[REAL]', 'E2 rsym+z3', 'Geocentric::Rotation is orthonormal with determinant +1 for all unit (sin, cos) pairs', timeout=300),
        Ob('Q3.LocalCartesian', ob_local, '[REAL]', 'E2 rsym+z3', 'LocalCartesian: IntReverse undoes IntForward in geocentric coordinates, the origin maps to 0 and distances are preserved for every orthonormal _r; MatrixMultiply is r^T . M', timeout=600),
        Ob('Q4.Reverse.frame', ob_reverse_frame, '[REAL]', 'E2 rsym+z3', 'Geocentric::IntReverse, every feasible path: the returned latitude and longitude are atan2d of exactly the (sin, cos) pairs the returned rotation matrix is built from (M is the frame at the returned position)', timeout=900),
    ]

def replay(rp):
    cex = rp['cex']
    if cex.get('kind') != 'reverse_frame': return None, 'no concrete replay for symbolic identity ' + str(cex.get('claim'))
    lib = H.native({}, W)
    f = lib.vf_geoc_reverse; f.restype = None; f.argtypes = [ctypes.c_double] * 5 + [ctypes.c_void_p]
    worst = 0.0; at = None
    def tryit(a, fl, X, Y, Z):
        out = (ctypes.c_double * 12)(); f(a, fl, X, Y, Z, out)
        lat = out[0]; M = out[3:12]
        if lat != lat: return 0.0
        sphi, cphi = M[8], M[7]
        return abs(math.degrees(math.atan2(sphi, cphi)) - lat)
    cands = []
    try: cands.append(tuple(float(Fraction(cex[k])) for k in ('a', 'f', 'X', 'Y', 'Z')))
    except Exception: pass
    # degenerate limits of the branch structure (oblate: inside the singular disc with tiny Z of either sign; prolate: on the axis)
    for a, fl in ((6378137.0, 1 / 298.257223563), (6.4e6, 0.1), (6.4e6, -0.01), (6.4e6, -0.1)):
        for X, Y, Z in ((1000.0, 0.0, -1e-170), (1000.0, 0.0, 1e-170), (0.0, 0.0, -1000.0), (0.0, 0.0, 1000.0), (20000.0, 5000.0, -1.0), (3e6, 1e6, -4e6), (1e5, 0.0, -0.0)):
            cands.append((a, fl, X, Y, Z))
    for c in cands:
        d = tryit(*c)
        if d > worst: worst, at = d, c
    bad = worst > 1e-9
    return bad, 'Geocentric::Reverse(a=%g, f=%g, X=%g, Y=%g, Z=%g): returned latitude differs by %.3g deg from the latitude of the returned rotation matrix (atan2d(M[8], M[7]))' % (at + (worst,)) if at else 'no deviation found'

MANIFEST = {
    'engine': 'E2',
    'technique': 'symbolic execution of clang IR over z3 reals with trigonometric pairs constrained by s^2+c^2=1; closed-form identities; path-wise frame consistency of the reverse conversion',
    'text': 'Bounded solver verdicts on the real code: Geocentric::IntForward equals the closed-form geodetic-to-geocentric formulas and the east/north/up matrix for every ellipsoid; Rotation is a proper rotation; LocalCartesian is the rigid motion its members define '
            '(inverse, origin, distances, r^T.M); on every feasible path of IntReverse the returned latitude/longitude are those of the returned rotation matrix.',
    'note': 'Exact-real semantics; sincosd/atan2d/sqrt/cbrt/hypot opaque with their defining relations; that IntReverse solves the quartic (closure Forward(Reverse(p)) = p), least-magnitude height and all round-off statements are not decided. '
            'Trusted: clang-14, vfw/irparse+rsym, z3.',
}
