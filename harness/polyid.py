#!/usr/bin/env python3
"""Generic [REAL] obligation: the symbolic values E2 computed from the IR equal specification terms,
for all real values of the symbols satisfying `assume`.  With translator validation against the
native build and a concrete replay of any counterexample."""
import ctypes, time, random
from fractions import Fraction
import z3
from vfw import rsym, series
from harness import common as H

def native_call(lib, nat, point, label):
    """declarative native call.  nat = {wrapper, fn, sig:[...], result:'ret'|'out'}
    sig items: 'd' next point value; 'i:<k>' integer constant; 'I' the item label as int; 'A<k>' array of the next k point values;
    'O<k>' output buffer of k doubles.  result 'out' -> out[label]"""
    f = getattr(lib, nat['fn']); args = []; types = []; pi = 0; outbuf = None; keep = []
    for it in nat['sig']:
        if it == 'd': args.append(float(point[pi])); types.append(ctypes.c_double); pi += 1
        elif it.startswith('i:'): args.append(int(it[2:])); types.append(ctypes.c_int)
        elif it == 'I': args.append(int(label)); types.append(ctypes.c_int)
        elif it[0] == 'A':
            k = int(it[1:]); arr = (ctypes.c_double * k)(*[float(x) for x in point[pi:pi + k]]); pi += k
            keep.append(arr); args.append(arr); types.append(ctypes.c_void_p)
        elif it[0] == 'O':
            k = int(it[1:]); outbuf = (ctypes.c_double * k)(*([float('nan')] * k)); args.append(outbuf); types.append(ctypes.c_void_p)
        else: raise ValueError(it)
    f.argtypes = types; f.restype = ctypes.c_double if nat['result'] == 'ret' else None
    r = f(*args)
    if nat['result'] == 'ret': return r
    return outbuf[int(label) + int(nat.get('out_offset', 0))]

def default_points(seed, k, nvars):
    return H.rat_points(seed + 12345, k, -0.9, 0.9, nvars)

def check(ctx, tag, items, specs, vars_, assume, nat, specq=None, specval=None, maxdeg=None, points=None, functions=(), bounds=None,
          timeout_ms=60000, nvalid=12, tol=1e-10, abs_tol=None):
    """items: [(label, code_term)], specs: {label: z3 term}; nat: declarative native call (dict) ;
    specq: {label: {mono: Fraction}} (exact evaluation of the spec) or specval(point) -> {label: Fraction}"""
    lib = H.native(ctx, nat['wrapper'])
    seed = ctx.get('seed', 0)
    pts = (points or (lambda sd, k: default_points(sd, k, len(vars_))))(seed, nvalid)
    def spec_at(label, pt):
        if specq is not None: return series.mono_poly_eval(specq[label], pt[:len(next(iter(specq[label])) if specq[label] else ())] if False else pt, maxdeg)
        return specval(pt)[label]
    # 1. translator validation: symbolic value computed from the IR, evaluated exactly at rational points, vs the native build
    nval = 0; mism = []
    for pt in pts:
        for label, code in items:
            cv = H.zeval(code, vars_, pt)
            if cv is None: continue
            nv = native_call(lib, nat, pt, label); nval += 1
            if not H.close(cv, nv, rel=1e-9, abs_=1e-13): mism.append((label, [str(x) for x in pt], float(cv), nv))
    if mism:
        return {'verdict': 'broken', 'detail': 'translator validation: IR-derived value differs from the native build: %r' % mism[:3],
                'validation': {'compared': nval, 'mismatches': len(mism)}}
    # 2. the solver decides  forall vars. assume => code == spec
    queries = 0; nontriv = 0; solver_s = 0.0; cexs = []; unknown = []; sample = None
    for label, code in items:
        spec = specs[label]
        claim = (code == spec) if abs_tol is None else z3.And(code - spec <= rsym.RV(Fraction(abs_tol)), spec - code <= rsym.RV(Fraction(abs_tol)))
        st, model, dt = rsym.prove(claim, assume, timeout_ms=timeout_ms); queries += 1; solver_s += dt
        fresh = z3.Real('fresh_code_value')
        st2, _, dt2 = rsym.prove(fresh == spec, assume, timeout_ms=5000); queries += 1; solver_s += dt2
        if st2 == 'sat': nontriv += 1
        if sample is None:
            sample = {'label': str(label), 'code_term': str(z3.simplify(code))[:400], 'spec_term': str(z3.simplify(spec))[:400], 'verdict': st}
        if st == 'unknown': unknown.append(label)
        elif st == 'sat':
            # choose the most telling concrete point among the model point and the validation points
            cands = []
            mp = [rsym.model_value(model, v) for v in vars_]
            if all(x is not None for x in mp): cands.append(mp)
            cands += pts
            best = None
            for pt in cands:
                cv = H.zeval(code, vars_, pt)
                if cv is None: continue
                try: sv = spec_at(label, pt)
                except ZeroDivisionError: continue
                d = abs(float(cv) - float(sv)) / max(1e-300, max(abs(float(cv)), abs(float(sv)), 1e-3))
                if best is None or d > best[0]: best = (d, pt, cv, sv)
            if best is None: unknown.append(label); continue
            cexs.append({'tag': tag, 'label': label, 'point': [str(x) for x in best[1]], 'vars': [str(v) for v in vars_],
                         'spec_value': str(best[3]), 'code_value_from_ir': str(best[2]), 'native': nat, 'tol': tol,
                         'model': {str(v): str(x) for v, x in zip(vars_, mp)}})
    res = {'queries': queries, 'nontrivial': nontriv, 'solver_s': round(solver_s, 4), 'functions': list(functions), 'sample': sample,
           'validation': {'compared': nval, 'mismatches': 0, 'points': len(pts)}, 'bounds': bounds or {}}
    if cexs:
        res['verdict'] = 'violated'; res['cex'] = cexs[0]; res['cex']['all_failing_labels'] = [c['label'] for c in cexs]
        res['detail'] = '%d of %d identities refuted' % (len(cexs), len(items))
    elif unknown:
        res['verdict'] = 'inconclusive'; res['detail'] = 'solver returned unknown for %r' % unknown
    else:
        res['verdict'] = 'proved'
    return res

def replay(rp):
    """concrete replay against a fresh native build of the current tree: call the real function at the
    counterexample point in double precision and compare with the exact specification value"""
    cex = rp['cex']; nat = cex['native']
    ctx = {}
    lib = H.native(ctx, nat['wrapper'])
    pt = [Fraction(x) for x in cex['point']]
    nv = native_call(lib, nat, pt, cex['label'])
    sv = float(Fraction(cex['spec_value']))
    scale = max(abs(nv), abs(sv), 1e-3)
    bad = not (abs(nv - sv) <= cex.get('tol', 1e-10) * scale)
    msg = '%s[%s] at %s: real code returns %.17g, specification value %.17g (rel. diff %.3g)' % (
        cex['tag'], cex['label'], dict(zip(cex['vars'], cex['point'])), nv, sv, abs(nv - sv) / scale)
    return bad, msg
