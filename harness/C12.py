#!/usr/bin/env python3
"""C12 — output-mask independence and frame of the line objects (E1, FP mode U, two-run relational)"""
import os
from vfw.run import Ob
from vfw import e1, build
from harness import common as H

W = 'w_GeodesicLine'; HC = os.path.join(build.VERIF, 'harness', 'C12', 'c12.c')
GP = '@_ZNK13GeographicLib12GeodesicLine11GenPositionEbdjRdS1_S1_S1_S1_S1_S1_S1_'
ASSUMPTIONS = [
    'FP mode U: every arithmetic / libm call site is an uninterpreted function (congruence only) with the IEEE-exact rewrites x*(+-1), x/(+-1), x+-0; comparisons, negation, fabs, copysign exact. '
    'Sound for relational claims: whatever the operations compute, two runs performing the same operations on the same values agree',
    'Math::AngNormalize, atan2d, sincosd and Geodesic::SinCosSeries are uninterpreted pure functions of their arguments (SinCosSeries also of the coefficient array inside the unchanged line object)',
    'the line object is an arbitrary byte pattern of sizeof(GeodesicLine) with _exact = false: every state a constructor can or cannot produce is covered',
    '"independent beyond round-off" is checked as bit-identical under congruence; an alternative evaluation order that is only real-equal would be reported (none exists in GenPosition)',
]

def prepare(ctx):
    H.ir_module(ctx, W); H.ir_module(ctx, WX)

WX = 'w_GeodesicLineExact'
GPX = '@_ZNK13GeographicLib17GeodesicLineExact11GenPositionEbdjRdS1_S1_S1_S1_S1_S1_S1_'
def _mk(exact, fn):
    def run(ctx):
        w = WX if exact else W; m = H.ir_module(ctx, w); cls = 'GeodesicLineExact' if exact else 'GeodesicLine'
        offs = H.offsets(m, cls)
        roots = [GPX if exact else GP]
        if fn == 'harness_setpoint':
            roots += ['@_ZN13GeographicLib%d%s6SetArcEd' % (len(cls), cls), '@_ZN13GeographicLib%d%s11SetDistanceEd' % (len(cls), cls)]
        defs = (['EXACT'] if exact else []) + ['CAPS_OFF=%d' % offs['_caps'], 'A13_OFF=%d' % offs['_a13'], 'S13_OFF=%d' % offs['_s13']]
        return e1.cbmc_check(ctx, m, 'C12', roots, HC, function=fn, unwind=10, timeout=600, defines=defs,
                             export_types=['%%"class.GeographicLib::%s"' % cls], extra_globals=['@vf_off_%s_%s' % (cls, k) for k in (['_caps', '_a13', '_s13'] + ([] if exact else ['_exact']))])
    run.cbmc_timeout = 600
    return run

def obligations(ctx):
    obs = []
    for exact in (False, True):
        cls = 'GeodesicLineExact' if exact else 'GeodesicLine'
        obs.append(Ob('Q1Q2.%s.GenPosition' % cls, _mk(exact, 'harness_genposition'), '[ABS-U]', 'E1 cgen+cbmc',
               cls + '::GenPosition, two runs on the same arbitrary line with arbitrary masks m1, m2: unrequested/uncapable outputs untouched, requested outputs bit-identical across masks, return value mask-independent, NaN and no writes when the point cannot be located',
               timeout=630, bounds={'masks': 'all 2^32 x 2^32', 'caps': 'all', 'arcmode': 'both', 'line state': 'arbitrary'}))
        obs.append(Ob('Q5.%s.SetArc+SetDistance' % cls, _mk(exact, 'harness_setpoint'), '[ABS-U]', 'E1 cgen+cbmc',
               cls + '::SetArc / SetDistance from an arbitrary line state (any history): the stored (a13, s13) are the argument and what GenPosition reports for it on the same line; NaN, not a stale value, when the line cannot compute it',
               timeout=630, bounds={'line state': 'arbitrary (any earlier SetDistance/SetArc history)', 'caps': 'all'}))
    return obs

def replay(rp):
    return e1.replay(rp, WX if 'EXACT' in rp['cex'].get('defines', []) else W, use_wrapper_obj=True)

MANIFEST = {
    'engine': 'E1',
    'technique': 'two-run relational bounded model checking (cbmc) of C generated from the clang IR, floating-point operations as per-call-site uninterpreted functions',
    'text': 'Bounded solver verdict on the real code of GeodesicLine::GenPosition: for every pair of output masks, every capability set, both arc modes and an arbitrary line state, each requested output is bit-identical across the two masks, '
            'unrequested outputs keep their previous bits, and an uninitialised line or a distance request without DISTANCE_IN returns NaN and writes nothing.',
    'note': 'Arithmetic abstracted by congruence (mode U): the numeric values themselves are the subject of C01/C03. Geodesic::GenDirect/GenInverse, GeodesicLineExact, Rhumb and the inline overloads are not yet covered by this check. '
            'Trusted: clang-14, vfw/cgen, cbmc 6.11.',
}
