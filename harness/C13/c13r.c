/* C13 harness (E1): SphericalEngine::coeff::readcoeffs — the header of a coefficient file is validated before anything is sized from it.
   The stream is an environment: readarray<int> delivers an arbitrary header (N0, M0), readarray<double> and seekg do nothing; the two vectors start empty. */
#include "fp_N.h"
#include "cxx.c"
static void mkE(char* ret) { S_P(ret) = S_BUF(ret); vf_str_init(ret, "E", 1); }
void F__ZStplIcSt11char_traitsIcESaIcEENSt7__cxx1112basic_stringIT_T0_T1_EEOS8_PKS5_(char* ret, char* a, char* b) { mkE(ret); }
void F__ZStplIcSt11char_traitsIcESaIcEENSt7__cxx1112basic_stringIT_T0_T1_EEOS8_S9_(char* ret, char* a, char* b) { mkE(ret); }
void F__ZStplIcSt11char_traitsIcESaIcEENSt7__cxx1112basic_stringIT_T0_T1_EEPKS5_OS8_(char* ret, char* a, char* b) { mkE(ret); }
void F__ZN13GeographicLib7Utility3strIiEENSt7__cxx1112basic_stringIcSt11char_traitsIcESaIcEEET_i(char* ret, uint32_t v, uint32_t p) { mkE(ret); }
int in_N0, in_M0, n_hdr;
void F__ZN13GeographicLib7Utility9readarrayIiiLb0EEEvRSiPT0_m(char* stream, char* dst, uint64_t n) {
  __CPROVER_assert(n == 2, "the header is two ints"); ((int*)dst)[0] = in_N0; ((int*)dst)[1] = in_M0; n_hdr++; }
void F__ZN13GeographicLib7Utility9readarrayIddLb0EEEvRSiPT0_m(char* stream, char* dst, uint64_t n) { }
char* F__ZNSi5seekgElSt12_Ios_Seekdir(char* stream, int64_t off, uint32_t dir) { return stream; }
uint64_t app_n[2]; int n_app; double pool[2][64];
/* vector<double>::_M_default_append on an empty vector: storage for up to 64 elements (harness bound: degrees < 8) */
void F__ZNSt6vectorIdSaIdEE17_M_default_appendEm(char* v, uint64_t n) {
  if (n_app < 2) { app_n[n_app] = n;
    if (n <= 64) { ((char**)v)[0] = (char*)pool[n_app]; ((char**)v)[1] = (char*)(pool[n_app] + n); ((char**)v)[2] = (char*)(pool[n_app] + 64); } }
  n_app++; }
#include "gen.c"
int in_N, in_M, in_trunc;
static int okhdr(int n, int m) { return (n >= m && m >= 0) || (n == -1 && m == -1); }
void harness_readcoeffs(void) {
  IN(in_N, nondet_int()); IN(in_M, nondet_int()); IN(in_N0, nondet_int()); IN(in_M0, nondet_int()); IN(in_trunc, nondet_int() & 1);
  /* small degrees (the vectors get real storage for up to 64 coefficients), any negative values: N, N0 in (-2^14, 8), M, M0 in (-2^14, 5) */
  __CPROVER_assume(in_N > -(1 << 14) && in_N < 8 && in_M > -(1 << 14) && in_M < 5 && in_N0 > -(1 << 14) && in_N0 < 8 && in_M0 > -(1 << 14) && in_M0 < 5);
  int N = in_N, M = in_M; char* C[3] = { 0, 0, 0 }; char* S[3] = { 0, 0, 0 }; char stream[8];
  vf_exc = 0; n_hdr = 0; n_app = 0;
  F__ZN13GeographicLib15SphericalEngine5coeff10readcoeffsERSiRiS3_RSt6vectorIdSaIdEES7_b(stream, (char*)&N, (char*)&M, (char*)C, (char*)S, (uint8_t)in_trunc);
  __CPROVER_assert(vf_exc == 0 || vf_exc == 1, "readcoeffs throws nothing but GeographicErr");
  int good = okhdr(in_N0, in_M0) && (!in_trunc || okhdr(in_N, in_M));
  if (!good) { __CPROVER_assert(vf_exc == 1, "a malformed header (or request) is rejected: N >= M >= 0, or N = M = -1 for an empty set"); VF_WITNESS("malformed header rejected"); return; }
  __CPROVER_assert(vf_exc == 0, "a well-formed header is accepted");
  for (int i = 0; i < 2; i++) if (i < n_app) __CPROVER_assert(app_n[i] <= 64, "the coefficient vectors are sized with a non-negative count (at most 36 + 28 coefficients at these degrees)");
  int n = in_trunc ? (in_N < in_N0 ? in_N : in_N0) : in_N0, m = in_trunc ? (in_M < in_M0 ? in_M : in_M0) : in_M0;
  __CPROVER_assert(N == n && M == m, "degree and order returned: those of the file, truncated to the request");
  VF_WITNESS("well-formed header accepted");
}
