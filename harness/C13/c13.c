/* C13 harnesses (E1, FP mode N = NaN taint): constructor validation and NaN transparency.  An arithmetic result is NaN when an operand is
   NaN and arbitrary otherwise, so "NaN in => NaN out for every dependent output" and "no exception for NaN" are decided without arithmetic. */
#include "fp_N.h"
#include "cxx.c"
#include "gen.c"
static int fin(double x) { return !isnan(x) && !isinf(x); }
double in_a, in_f, in_k0, in_lat, in_lon, in_h; int in_northp;

#ifdef E_CTOR_GEOCENTRIC
void harness(void) {
  static char obj[256]; IN(in_a, nondet_double()); IN(in_f, nondet_double()); vf_exc = 0;
  F__ZN13GeographicLib10GeocentricC2Edd(obj, in_a, in_f);
  __CPROVER_assert(vf_exc == 0 || vf_exc == 1, "the constructor throws only GeographicErr");
  __CPROVER_assert((vf_exc == 0) == (fin(in_a) && in_a > 0 && fin(in_f) && in_f < 1), "Geocentric(a, f) is accepted exactly when a is finite > 0 and f is finite < 1");
  VF_WITNESS("ctor end");
}
#endif
#ifdef E_CTOR_PS
void harness(void) {
  static char obj[256]; IN(in_a, nondet_double()); IN(in_f, nondet_double()); IN(in_k0, nondet_double()); vf_exc = 0;
  F__ZN13GeographicLib18PolarStereographicC2Eddd(obj, in_a, in_f, in_k0);
  __CPROVER_assert(vf_exc == 0 || vf_exc == 1, "the constructor throws only GeographicErr");
  __CPROVER_assert((vf_exc == 0) == (fin(in_a) && in_a > 0 && fin(in_f) && in_f < 1 && fin(in_k0) && in_k0 > 0), "PolarStereographic(a, f, k0) is accepted exactly when a, k0 are finite > 0 and f is finite < 1");
  VF_WITNESS("ctor end");
}
#endif
#ifdef E_NAN_PS
VT_class_GeographicLib__PolarStereographic in_o; VT_class_GeographicLib__PolarStereographic nondet_o(void);
#define OFF(x) (*(long*)&G_vf_off_PolarStereographic_##x)
void harness(void) {
  in_o = nondet_o(); char* op = (char*)&in_o;
  /* a constructed object: every member finite (constructor obligation), a, k0, c > 0 */
  __CPROVER_assume(fin(*(double*)(op + OFF(_a))) && fin(*(double*)(op + OFF(_k0))) && fin(*(double*)(op + OFF(_c))) && fin(*(double*)(op + OFF(_e2))) && fin(*(double*)(op + OFF(_e2m))) && fin(*(double*)(op + OFF(_es))));
  IN(in_northp, nondet_int() & 1); IN(in_lat, nondet_double()); IN(in_lon, nondet_double());
  __CPROVER_assume(isnan(in_lat) || isnan(in_lon));
  double x = 1, y = 2, g = 3, k = 4; vf_exc = 0;
  F__ZNK13GeographicLib18PolarStereographic7ForwardEbddRdS1_S1_S1_(op, (uint8_t)in_northp, in_lat, in_lon, (char*)&x, (char*)&y, (char*)&g, (char*)&k);
  __CPROVER_assert(vf_exc == 0, "NaN arguments raise no exception");
  __CPROVER_assert(isnan(x) && isnan(y), "x and y depend on both coordinates: NaN");
  if (isnan(in_lat)) __CPROVER_assert(isnan(k), "the scale depends on the latitude: NaN latitude gives NaN scale");
  if (isnan(in_lon)) __CPROVER_assert(isnan(g), "the convergence depends on the longitude: NaN longitude gives NaN convergence");
  VF_WITNESS("nan end");
}
#endif
#ifdef E_NAN_GEOC
VT_class_GeographicLib__Geocentric in_o; VT_class_GeographicLib__Geocentric nondet_o(void);
void harness(void) {
  in_o = nondet_o(); char* op = (char*)&in_o;
  IN(in_lat, nondet_double()); IN(in_lon, nondet_double()); IN(in_h, nondet_double());
  __CPROVER_assume(isnan(in_lat) || isnan(in_lon) || isnan(in_h));
  double X = 1, Y = 2, Z = 3; vf_exc = 0;
  F__ZNK13GeographicLib10Geocentric10IntForwardEdddRdS1_S1_Pd(op, in_lat, in_lon, in_h, (char*)&X, (char*)&Y, (char*)&Z, (char*)0);
  __CPROVER_assert(vf_exc == 0, "NaN arguments raise no exception");
  if (isnan(in_lat) || isnan(in_h)) __CPROVER_assert(isnan(X) && isnan(Y) && isnan(Z), "X, Y, Z depend on latitude and height");
  if (isnan(in_lon)) __CPROVER_assert(isnan(X) && isnan(Y), "X, Y depend on the longitude");
  VF_WITNESS("nan end");
}
#endif
