#!/usr/bin/env python3
"""C02 — inverse geodesic problem: the canonical-form bookkeeping of Geodesic::GenInverse (lonsign / swapp / latsign and the
restoration of signs and end-point order) decided as symmetry of two symbolic runs (E2), numerical core opaque"""
import z3, ctypes, itertools
from fractions import Fraction
from vfw.run import Ob
from vfw import rsym
from harness import common as H

W = 'w_Geodesic'
GI = '@_ZNK13GeographicLib8Geodesic10GenInverseEddddjRdS1_S1_S1_S1_S1_S1_S1_S1_'
ASSUMPTIONS = [
    'only the bookkeeping of Geodesic::GenInverse (series solver) is decided: sign of the longitude difference, end-point swap, hemisphere flip, case selection as a function of the canonical inputs, and the restoration of signs and order in the outputs (s12, sin/cos of both azimuths, m12, M12, M21, a12)',
    'the numerical core is an environment of deterministic uninterpreted functions of their arguments: InverseStart, Lambda12, Lengths, sincosd, sincosde, sin, cos, sqrt, atan2, hypot; Lambda12 reports convergence at its first call (the bookkeeping before and after the Newton loop does not depend on the iteration count). That the returned geodesic joins the points, is shortest, converges, agrees with GeodesicExact, or has a12 in [0,180] is NOT decided',
    '[REAL] semantics: AngDiff(x, y) is y - x with zero error term and AngRound, LatFix, AngNormalize are the identity (their rounding refinements and the reduction modulo 360 are outside the claim; periodicity in longitude is C04/C16); signed zeros do not exist in the real model',
    'inputs: latitudes of each sign pattern in (-90, 90) (both non-zero, or both exactly zero: the equatorial problem), non-zero longitude difference of each sign with |difference| < 180, |lat1| != |lat2| for the exchange (ties between equally short geodesics are excluded as the property allows); outmask = DISTANCE|AZIMUTH|REDUCEDLENGTH|GEODESICSCALE (AREA branch outside the claim); every ellipsoid-dependent member of the Geodesic object is arbitrary, the tolerance constants have their constructor values, _exact = false',
    'GeodesicExact::GenInverse (obligations X.*) is encoded in the same way; its EllipticFunction object is a token whose state is a deterministic function of the arguments of the Reset / Lambda12 call that last set it',
    'D.GenInverse.<case>.-+E: both GenInverse functions (IR compiled with -mllvm -inline-threshold=0) are executed on the same symbolic problem (lat1 < 0 < lat2, lon2 - lon1 in (0, 180), f > 0, e2 > 0, a > 0) with outmask = DISTANCE|AZIMUTH|REDUCEDLENGTH|GEODESICSCALE|AREA and ONE abstract numerical core shared by the two solvers: InverseStart, Lambda12 (converging at its first call), Lengths (without eps / the EllipticFunction object), sincosd, sincosde, sin, cos, sqrt, hypot, atan2 are uninterpreted functions; the area integral is one uninterpreted B4(ssig, csig) - series: SinCosSeries of the C4 coefficients, exact: DST::integral(ssig1, csig1, ssig2, csig2) modelled as B4(2) - B4(1), its dependence on k2/eps dropped; EllipticFunction, I4Integrand, std::function, DST::transform are no-ops and std::vector an opaque buffer. The three cases split the problem by assumptions recorded in the path condition: meridian (sin of the longitude difference = 0), short (InverseStart returns sig12 >= 0), newton (it returns < 0). What is decided: case selection, canonical-form flags, the short-line formulas (s12, m12, M12, M21, a12, omg12), both alp12 formulas of the area, the alp12 = +-180 fix-up, and the sign restoration are the same function of the core in both solvers. f < 0 (dn1/dn2 are computed by different formulas) and the other sign patterns are outside these obligations. Replay: as for D.InverseStart, plus S12 on WGS84 (difference > 0.5 m^2) away from the antipode',
    'D.InverseStart.*: both InverseStart functions are executed (IR compiled with -mllvm -inline-threshold=0) on the same symbolic sbet1, cbet1, dn1, sbet2, cbet2, dn2, lam12, slam12, clam12 and the same ellipsoid members, under the canonical-form precondition of GenInverse (sbet1 <= 0 < cbet1, cbet2 > 0, sbet1 <= sbet2 <= -sbet1, lam12 >= 0, slam12 >= 0); sin, cos, sqrt, hypot, atan2, cbrt, Astroid and Lengths are uninterpreted functions shared by the two runs (Lengths without its first argument: eps / the EllipticFunction object). Oblate obligation: f > 0 and n > 1/10, so the antipodal arm, whose longitude scale comes from A3 in one solver and from the complete integral H in the other, is not entered - that arm for n <= 1/10 is outside the claim. Replay: the real series and exact solvers on 150+ problems per ellipsoid down to 1e-9 deg from the antipode and 1e-9 deg separation; s12 differing by more than 10 um reproduces',
]
MASK = 0x0400 | 0x0001 | 0x0200 | 0x1000 | 0x0004 | 0x2000
OUTS = ['s12', 'salp1', 'calp1', 'salp2', 'calp2', 'm12', 'M12', 'M21', 'S12']

def prepare(ctx):
    H.ir_module(ctx, W); H.native(ctx, W); H.ir_module(ctx, WX); H.native(ctx, WX); H.ir_module(ctx, W, flags=NOINL); H.ir_module(ctx, WX, flags=NOINL)

WX = 'w_GeodesicExact'
GIX = '@_ZNK13GeographicLib13GeodesicExact10GenInverseEddddjRdS1_S1_S1_S1_S1_S1_S1_S1_'
def _run(ctx, lat1, lon1, lat2, lon2, assume, exact=False):
    if exact: return _run_exact(ctx, lat1, lon1, lat2, lon2, assume)
    m = H.ir_module(ctx, W); o = H.offsets(m, 'Geodesic')
    cells = {off: z3.Real('Geod_%d' % off) for off in range(0, H.sizeof(m, 'Geodesic'), 8)}
    cells.update({0: 83, 8: rsym.RV(Fraction(1, 2 ** 511)), 16: rsym.RV(Fraction(1, 2 ** 52)), 24: rsym.RV(Fraction(200, 2 ** 52)), 32: rsym.RV(Fraction(1, 2 ** 26)), 40: rsym.RV(Fraction(1, 2 ** 52)),
                  48: rsym.RV(Fraction(1000, 2 ** 26)), o['_exact']: 0})
    def U(name, n): return lambda ex, a, mem: ex.UF(name, n)(*a[:n])
    def outs(ex, mem, ptrs, tag, args):
        for k, p_ in enumerate(ptrs): ex.store(mem, p_, None, ex.UF('%s_%d' % (tag, k), len(args))(*args))
    def angdiff(ex, a, mem): ex.store(mem, a[2], None, rsym.RV(0)); return z3.simplify(a[1] - a[0])
    def sincosd(ex, a, mem): ex.store(mem, a[1], None, ex.UF('sind', 1)(a[0])); ex.store(mem, a[2], None, ex.UF('cosd', 1)(a[0])); return None
    def sincosde(ex, a, mem): ex.store(mem, a[2], None, ex.UF('sinde', 2)(a[0], a[1])); ex.store(mem, a[3], None, ex.UF('cosde', 2)(a[0], a[1])); return None
    def invstart(ex, a, mem): args = a[1:10]; outs(ex, mem, a[10:15], 'IS', args); return ex.UF('IS_sig12', 9)(*args)
    def lambda12(ex, a, mem):
        args = a[1:11]; outs(ex, mem, a[11:20], 'L12', args)
        if isinstance(a[20], int) and (a[20] & 1): ex.store(mem, a[21], None, ex.UF('L12_dlam', 10)(*args))
        mem.setdefault('!nl', []).append(1); return rsym.RV(0)      # converged at the first evaluation
    def lengths(ex, a, mem): args = a[1:11]; outs(ex, mem, a[12:17], 'LEN', args); return None
    opq = {'@_ZN13GeographicLib4Math7AngDiffIdEET_S2_S2_RS2_': angdiff, '@_ZN13GeographicLib4Math8AngRoundIdEET_S2_': lambda ex, a, mem: a[0],
           '@_ZN13GeographicLib4Math7sincosdIdEEvT_RS2_S3_': sincosd, '@_ZN13GeographicLib4Math8sincosdeIdEEvT_S2_RS2_S3_': sincosde,
           '@_ZNK13GeographicLib8Geodesic12InverseStartEdddddddddRdS1_S1_S1_S1_Pd': invstart, '@_ZNK13GeographicLib8Geodesic8Lambda12EddddddddddRdS1_S1_S1_S1_S1_S1_S1_S1_bS1_Pd': lambda12,
           '@_ZNK13GeographicLib8Geodesic7LengthsEddddddddddjRdS1_S1_S1_S1_Pd': lengths, '@_ZN13GeographicLib4Math3NaNIdEET_v': lambda ex, a, mem: z3.Real('NaN'),
           '@_ZN13GeographicLib4Math2piIdEET_v': lambda ex, a, mem: rsym.RV(Fraction(884279719003555, 281474976710656))}
    ex = rsym.Exec(m, opaque=opq, libm={'sqrt': U('sqrt', 1), 'hypot': U('hypot', 2), 'atan2': U('atan2', 2), 'sin': U('sin', 1), 'cos': U('cos', 1)}, assume=list(assume), path_cap=512, timeout_ms=3000)
    def mk(ex, mem):
        ex.new_obj(mem, 'g', dict(cells)); ex.new_obj(mem, 'o', {8 * i: z3.Real('untouched_%s' % OUTS[i]) for i in range(9)})
        return [rsym.Ptr('g', 0), lat1, lon1, lat2, lon2, MASK] + [rsym.Ptr('o', 8 * i) for i in range(9)]
    return ex.run_all(GI, mk)

def _run_exact(ctx, lat1, lon1, lat2, lon2, assume):
    """GeodesicExact::GenInverse: same bookkeeping text, elliptic-function core; the EllipticFunction object is a token (its state is a
    deterministic function of the arguments of Reset / of the Lambda12 call that last reset it)"""
    m = H.ir_module(ctx, WX); o = H.offsets(m, 'GeodesicExact')
    cells = {off: z3.Real('GeodX_%d' % off) for off in range(0, H.sizeof(m, 'GeodesicExact'), 8)}
    cells.update({0: 83, 8: rsym.RV(Fraction(1, 2 ** 511)), 16: rsym.RV(Fraction(1, 2 ** 52)), 24: rsym.RV(Fraction(200, 2 ** 52)), 32: rsym.RV(Fraction(1, 2 ** 26)), 40: rsym.RV(Fraction(1, 2 ** 52)), 48: rsym.RV(Fraction(1000, 2 ** 26))})
    def U(name, n): return lambda ex, a, mem: ex.UF(name, n)(*a[:n])
    def estate(mem, p_): return mem.get(p_.obj, {}).get(p_.off, z3.Real('E_unset'))
    def outs(ex, mem, ptrs, tag, args):
        for k, p_ in enumerate(ptrs): ex.store(mem, p_, None, ex.UF('%s_%d' % (tag, k), len(args))(*args))
    def angdiff(ex, a, mem): ex.store(mem, a[2], None, rsym.RV(0)); return z3.simplify(a[1] - a[0])
    def sincosd(ex, a, mem): ex.store(mem, a[1], None, ex.UF('sind', 1)(a[0])); ex.store(mem, a[2], None, ex.UF('cosd', 1)(a[0])); return None
    def sincosde(ex, a, mem): ex.store(mem, a[2], None, ex.UF('sinde', 2)(a[0], a[1])); ex.store(mem, a[3], None, ex.UF('cosde', 2)(a[0], a[1])); return None
    def reset(ex, a, mem): ex.store(mem, a[0], None, ex.UF('E_reset', 4)(*a[1:5])); return None
    def invstart(ex, a, mem): args = [estate(mem, a[1])] + a[2:11]; outs(ex, mem, a[11:16], 'ISX', args); return ex.UF('ISX_sig12', 10)(*args)
    def lambda12(ex, a, mem):
        args = a[1:11]; outs(ex, mem, a[11:18], 'L12X', args); ex.store(mem, a[18], None, ex.UF('L12X_E', 10)(*args)); ex.store(mem, a[19], None, ex.UF('L12X_domg', 10)(*args))
        if isinstance(a[20], int) and (a[20] & 1): ex.store(mem, a[21], None, ex.UF('L12X_dlam', 10)(*args))
        return rsym.RV(0)
    def lengths(ex, a, mem): args = [estate(mem, a[1])] + a[2:11]; outs(ex, mem, a[12:17], 'LENX', args); return None
    opq = {'@_ZN13GeographicLib4Math7AngDiffIdEET_S2_S2_RS2_': angdiff, '@_ZN13GeographicLib4Math8AngRoundIdEET_S2_': lambda ex, a, mem: a[0],
           '@_ZN13GeographicLib4Math7sincosdIdEEvT_RS2_S3_': sincosd, '@_ZN13GeographicLib4Math8sincosdeIdEEvT_S2_RS2_S3_': sincosde,
           '@_ZN13GeographicLib16EllipticFunction5ResetEdddd': reset,
           '@_ZNK13GeographicLib13GeodesicExact12InverseStartERNS_16EllipticFunctionEdddddddddRdS3_S3_S3_S3_': invstart,
           '@_ZNK13GeographicLib13GeodesicExact8Lambda12EddddddddddRdS1_S1_S1_S1_S1_S1_RNS_16EllipticFunctionES1_bS1_': lambda12,
           '@_ZNK13GeographicLib13GeodesicExact7LengthsERKNS_16EllipticFunctionEdddddddddjRdS4_S4_S4_S4_': lengths, '@_ZN13GeographicLib4Math3NaNIdEET_v': lambda ex, a, mem: z3.Real('NaN'),
           '@_ZN13GeographicLib4Math2piIdEET_v': lambda ex, a, mem: rsym.RV(Fraction(884279719003555, 281474976710656))}
    ex = rsym.Exec(m, opaque=opq, libm={'sqrt': U('sqrt', 1), 'hypot': U('hypot', 2), 'atan2': U('atan2', 2), 'sin': U('sin', 1), 'cos': U('cos', 1)}, assume=list(assume), path_cap=512, timeout_ms=3000)
    def mk(ex, mem):
        ex.new_obj(mem, 'g', dict(cells)); ex.new_obj(mem, 'o', {8 * i: z3.Real('untouched_%s' % OUTS[i]) for i in range(9)})
        return [rsym.Ptr('g', 0), lat1, lon1, lat2, lon2, MASK] + [rsym.Ptr('o', 8 * i) for i in range(9)]
    return ex.run_all(GIX, mk)

def ob_sym(ctx, which, s1, s2, sd, exact=False):
    """which: 'equator' | 'meridian' | 'exchange'; s1, s2: signs of the latitudes; sd: sign of the longitude difference"""
    la1, la2, L, D = z3.Real('alat1'), z3.Real('alat2'), z3.Real('L'), z3.Real('D')      # |lat1|, |lat2| > 0, lon1 = L, lon2 = L + sd D, D > 0
    base = [la1 > 0, la1 < 90, la2 > 0, la2 < 90, D > 0, D < 180]
    if which == 'exchange' and s1 and s2: base.append(la1 != la2)
    lat1, lat2 = (la1 if s1 > 0 else -la1 if s1 < 0 else rsym.RV(0)), (la2 if s2 > 0 else -la2 if s2 < 0 else rsym.RV(0))
    lon1, lon2 = L, (L + D if sd > 0 else L - D)
    A = _run(ctx, lat1, lon1, lat2, lon2, base, exact)
    neg = rsym.rneg
    if which == 'equator': B = _run(ctx, neg(lat1), lon1, neg(lat2), lon2, base, exact)
    elif which == 'meridian': B = _run(ctx, lat1, neg(lon1), lat2, (neg(L) - D if sd > 0 else neg(L) + D), base, exact)
    else: B = _run(ctx, lat2, lon2, lat1, lon1, base, exact)
    exp = {'equator': {'a12': ('a12', 1), 's12': ('s12', 1), 'm12': ('m12', 1), 'M12': ('M12', 1), 'M21': ('M21', 1), 'salp1': ('salp1', 1), 'salp2': ('salp2', 1), 'calp1': ('calp1', -1), 'calp2': ('calp2', -1)},
           'meridian': {'a12': ('a12', 1), 's12': ('s12', 1), 'm12': ('m12', 1), 'M12': ('M12', 1), 'M21': ('M21', 1), 'salp1': ('salp1', -1), 'salp2': ('salp2', -1), 'calp1': ('calp1', 1), 'calp2': ('calp2', 1)},
           'exchange': {'a12': ('a12', 1), 's12': ('s12', 1), 'm12': ('m12', 1), 'M12': ('M21', 1), 'M21': ('M12', 1), 'salp1': ('salp2', -1), 'calp1': ('calp2', -1), 'salp2': ('salp1', -1), 'calp2': ('calp1', -1)}}[which]
    def val(p, k): return p.ret if k == 'a12' else p.mem['o'][8 * OUTS.index(k)]
    q = 0; ss = 0.0; bad = None; unk = []; pairs = 0; triv = 0
    s = z3.Solver(); s.set('timeout', 5000)
    implied_cache = {}
    def implied_by_base(c):
        """decisions that the sign pattern alone settles (they differ textually between the two runs) are not part of a path's identity"""
        k = c.sexpr()
        if k not in implied_cache:
            s.push(); s.add(*base); s.add(z3.Not(c)); implied_cache[k] = (s.check() == z3.unsat); s.pop()
        return implied_cache[k]
    def keys(p):
        cs = [z3.simplify(c) for c in p.cond]; cs = [c for c in cs if not implied_by_base(c)]
        ks = frozenset(c.sexpr() for c in cs); ns = frozenset(z3.simplify(z3.Not(c)).sexpr() for c in cs); return ks, ns
    KA = [keys(p) for p in A]; KB = [keys(p) for p in B]
    for pa, (ka, na) in zip(A, KA):
        for pb, (kb, nb) in zip(B, KB):
            if nb & ka or na & kb: continue          # the two runs branch on the same normalised terms: contradictory decisions -> infeasible pair
            cond = base + list(pa.cond) + list(pb.cond)
            if ka != kb:
                s.push(); s.add(*cond); feas = s.check(); s.pop()
                if feas == z3.unsat: continue
            pairs += 1
            for k, (k2, sg) in exp.items():
                va, vb = val(pa, k), val(pb, k2)
                cl = z3.simplify(va == (vb if sg > 0 else rsym.rneg(vb)))
                if z3.is_true(cl): q += 1; triv += 1; continue          # identical terms: z3's simplifier already reduces the claim to true
                st, model, dt = rsym.prove(cl, cond, timeout_ms=20000); q += 1; ss += dt
                if st == 'sat' and bad is None: bad = {'kind': 'c02sym', 'exact': bool(exact), 'which': which, 'signs': [s1, s2, sd], 'output': k, 'expected': '%s%s of the transformed problem' % ('' if sg > 0 else '-', k2)}
                elif st == 'unknown': unk.append(k)
    r = {'queries': q, 'nontrivial': pairs, 'solver_s': round(ss, 3), 'functions': ['GeographicLib::%s::GenInverse (13-argument overload)' % ('GeodesicExact' if exact else 'Geodesic')],
         'bounds': {'sign pattern (lat1, lat2, lon2-lon1)': [s1, s2, sd], 'paths': [len(A), len(B)], 'feasible path pairs': pairs, 'claims reduced to true by z3.simplify': triv, 'Newton iterations': 1}}
    if bad: r.update({'verdict': 'violated', 'detail': 'GenInverse under %s: output %s is not %s' % (which, bad['output'], bad['expected']), 'cex': bad})
    elif unk: r.update({'verdict': 'inconclusive', 'detail': 'unknown on outputs %r' % sorted(set(unk))})
    elif pairs == 0: r.update({'verdict': 'inconclusive', 'detail': 'no feasible path pair'})
    else: r['verdict'] = 'proved'
    return r

# ---------------------------------------------------------------- series vs exact: InverseStart executed in both solvers on the same symbolic inputs
ISS = '@_ZNK13GeographicLib8Geodesic12InverseStartEdddddddddRdS1_S1_S1_S1_Pd'
ISX = '@_ZNK13GeographicLib13GeodesicExact12InverseStartERNS_16EllipticFunctionEdddddddddRdS3_S3_S3_S3_'
IS_IN = ['sbet1', 'cbet1', 'dn1', 'sbet2', 'cbet2', 'dn2', 'lam12', 'slam12', 'clam12']
IS_OUT = ['salp1', 'calp1', 'salp2', 'calp2', 'dnm']
IS_SHARED = ['_a', '_f', '_f1', '_e2', '_ep2', '_n', '_b', '_c2', '_etol2']
NOINL = ('-mllvm', '-inline-threshold=0')
PI_ = rsym.RV(Fraction(884279719003555, 281474976710656))

def _run_is(ctx, exact, assume):
    m = H.ir_module(ctx, WX if exact else W, flags=NOINL); cls = 'GeodesicExact' if exact else 'Geodesic'; o = H.offsets(m, cls)
    cells = {off: z3.Real('%s_%d' % (cls, off)) for off in range(0, H.sizeof(m, cls), 8)}
    cells.update({0: 83, 8: rsym.RV(Fraction(1, 2 ** 511)), 16: rsym.RV(Fraction(1, 2 ** 52)), 24: rsym.RV(Fraction(200, 2 ** 52)), 32: rsym.RV(Fraction(1, 2 ** 26)), 40: rsym.RV(Fraction(1, 2 ** 52)), 48: rsym.RV(Fraction(1000, 2 ** 26))})
    for n in IS_SHARED: cells[o[n]] = z3.Real('m' + n)        # the same ellipsoid in both solvers
    if '_exact' in o: cells[o['_exact']] = 0
    ins = [z3.Real(n) for n in IS_IN]
    def U(name, n): return lambda ex, a, mem: ex.UF(name, n)(*a[:n])
    def lengths(ex, a, mem):                                   # Lengths(_n | E, sig12, ssig1, csig1, dn1, ssig2, csig2, dn2, cbet1, cbet2, mask, &s12b, &m12b, &m0, &M12, &M21[, Ca])
        args = a[2:11]
        for k, p_ in enumerate(a[12:17]): ex.store(mem, p_, None, ex.UF('LEN_%d' % k, 9)(*args))
        return None
    # the longitude scale of the antipodal arm: series f*A3(eps)*pi, exact 2 e^2/(1-f) H(k2): one uninterpreted function of eps for both
    def a3f(ex, a, mem): return ex.UF('LS', 1)(a[1]) / (z3.Real('m_f') * PI_)
    def reset(ex, a, mem):
        k2 = rsym.rneg(a[1]); eps = k2 / (2 * (1 + ex.UF('sqrt', 1)(1 + k2)) + k2); v = ex.UF('LS', 1)(eps) * z3.Real('m_f1') / (2 * z3.Real('m_e2'))
        for off in range(0, 160, 8): ex.store(mem, rsym.Ptr(a[0].obj, a[0].off + off), None, v)
        return None
    opq = {'@_ZN13GeographicLib4Math2piIdEET_v': lambda ex, a, mem: PI_,
           '@_ZNK13GeographicLib8Geodesic7LengthsEddddddddddjRdS1_S1_S1_S1_Pd': lengths,
           '@_ZNK13GeographicLib13GeodesicExact7LengthsERKNS_16EllipticFunctionEdddddddddjRdS4_S4_S4_S4_': lengths,
           '@_ZNK13GeographicLib8Geodesic3A3fEd': a3f, '@_ZN13GeographicLib16EllipticFunction5ResetEdddd': reset,
           '@_ZN13GeographicLib8Geodesic7AstroidEdd': U('Astroid', 2), '@_ZN13GeographicLib13GeodesicExact7AstroidEdd': U('Astroid', 2)}
    ex = rsym.Exec(m, opaque=opq, libm={'sqrt': U('sqrt', 1), 'hypot': U('hypot', 2), 'atan2': U('atan2', 2), 'sin': U('sin', 1), 'cos': U('cos', 1), 'cbrt': U('cbrt', 1)},
                   assume=list(assume), path_cap=2048, timeout_ms=3000)
    def mk(ex, mem):
        ex.new_obj(mem, 'g', dict(cells)); ex.new_obj(mem, 'o', {8 * i: z3.Real('untouched_%s' % IS_OUT[i]) for i in range(5)})
        outs = [rsym.Ptr('o', 8 * i) for i in range(5)]
        if exact:
            ex.new_obj(mem, 'E', {off: z3.Real('E0_%d' % off) for off in range(0, 160, 8)}); return [rsym.Ptr('g', 0), rsym.Ptr('E', 0)] + ins + outs
        ex.new_obj(mem, 'Ca', {}); return [rsym.Ptr('g', 0)] + ins + outs + [rsym.Ptr('Ca', 0)]
    return ex.run_all(ISX if exact else ISS, mk)

def ob_diff_is(ctx, region):
    """every feasible pair (path of Geodesic::InverseStart, path of GeodesicExact::InverseStart) on the same inputs returns the same sig12 and writes the same
    salp1, calp1, salp2, calp2, dnm (unwritten outputs keep the same caller value)"""
    sb1, cb1, sb2, cb2 = z3.Real('sbet1'), z3.Real('cbet1'), z3.Real('sbet2'), z3.Real('cbet2')
    base = [z3.Real('m_f') != 0, z3.Real('m_e2') != 0, z3.Real('m_f1') > 0, sb1 <= 0, cb1 > 0, cb2 > 0, sb2 <= -sb1, sb2 >= sb1, z3.Real('lam12') >= 0, z3.Real('slam12') >= 0]
    # oblate: the antipodal arm computes its longitude scale from A3 (series) / the complete integral H (exact) - two different numerical cores; it is skipped for n > 1/10, which is the
    # oblate region decided here; for f < 0 both solvers use Lengths (one shared abstract function) and the whole function, astroid arm included, is compared
    base += ([z3.Real('m_f') > 0, z3.Real('m_n') > Fraction(1, 10)] if region == 'oblate' else [z3.Real('m_f') < 0])
    A = _run_is(ctx, False, base); B = _run_is(ctx, True, base)
    s = z3.Solver(); s.set('timeout', 5000)
    def keys(p):
        cs = [z3.simplify(c) for c in p.cond[len(base):]]
        return frozenset(c.sexpr() for c in cs), frozenset(z3.simplify(z3.Not(c)).sexpr() for c in cs)
    KA = [keys(p) for p in A]; KB = [keys(p) for p in B]
    q = 0; ss = 0.0; bad = None; unk = []; pairs = 0; triv = 0; shortcut = 0
    for pa, (ka, na) in zip(A, KA):
        for pb, (kb, nb) in zip(B, KB):
            if nb & ka or na & kb: continue
            cond = list(pa.cond) + list(pb.cond[len(base):])
            if ka != kb:
                s.push(); s.add(*cond); feas = s.check(); s.pop()
                if feas == z3.unsat: continue
            pairs += 1
            va = [pa.ret] + [pa.mem['o'][8 * i] for i in range(5)]; vb = [pb.ret] + [pb.mem['o'][8 * i] for i in range(5)]
            if not (z3.is_rational_value(z3.simplify(pa.ret)) if rsym.is_sym(pa.ret) else True): shortcut += 1
            for name, x, y in zip(['sig12'] + IS_OUT, va, vb):
                cl = z3.simplify(x == y); q += 1
                if z3.is_true(cl): triv += 1; continue
                st, model, dt = rsym.prove(cl, cond, timeout_ms=20000); ss += dt
                if st == 'sat' and bad is None: bad = {'kind': 'c02diff', 'output': name, 'series': str(z3.simplify(x))[:200], 'exact': str(z3.simplify(y))[:200]}
                elif st == 'unknown': unk.append(name)
    r = {'queries': q, 'nontrivial': pairs, 'solver_s': round(ss, 3), 'functions': ['GeographicLib::Geodesic::InverseStart', 'GeographicLib::GeodesicExact::InverseStart', 'GeographicLib::Math::sq<double> (and the other inline helpers, executed)'],
         'bounds': {'region': region + (' (f > 0, n > 1/10)' if region == 'oblate' else ' (f < 0)'), 'paths': [len(A), len(B)], 'feasible path pairs': pairs, 'pairs on which the series solver returns the short-line shortcut': shortcut, 'claims reduced to true by z3.simplify': triv}}
    if bad: r.update({'verdict': 'violated', 'detail': 'InverseStart of the two solvers disagree on %s for the same inputs: series %s, exact %s' % (bad['output'], bad['series'], bad['exact']), 'cex': bad})
    elif unk: r.update({'verdict': 'inconclusive', 'detail': 'unknown on outputs %r' % sorted(set(unk))})
    elif pairs == 0 or shortcut == 0: r.update({'verdict': 'inconclusive', 'detail': 'no feasible path pair / shortcut never reached'})
    else: r['verdict'] = 'proved'
    return r

# ---------------------------------------------------------------- series vs exact: GenInverse (bookkeeping, short-line branch, area assembly) with one shared abstract core
MASK_AREA = MASK | 0x4000 | 0x0100      # + AREA (and its capability bit)
def _run_gi2(ctx, exact, lat1, lon1, lat2, lon2, assume, case):
    m = H.ir_module(ctx, WX if exact else W, flags=NOINL); cls = 'GeodesicExact' if exact else 'Geodesic'; o = H.offsets(m, cls)
    cells = {off: z3.Real('%s_%d' % (cls, off)) for off in range(0, H.sizeof(m, cls), 8)}
    cells.update({0: 83, 8: rsym.RV(Fraction(1, 2 ** 511)), 16: rsym.RV(Fraction(1, 2 ** 52)), 24: rsym.RV(Fraction(200, 2 ** 52)), 32: rsym.RV(Fraction(1, 2 ** 26)), 40: rsym.RV(Fraction(1, 2 ** 52)), 48: rsym.RV(Fraction(1000, 2 ** 26))})
    for n in IS_SHARED: cells[o[n]] = z3.Real('m' + n)
    if '_exact' in o: cells[o['_exact']] = 0
    if '_nC4' in o: cells[o['_nC4']] = 30          # size of the (opaque) DST coefficient vector: a concrete int, never used by the abstract core
    def U(name, n): return lambda ex, a, mem: ex.UF(name, n)(*a[:n])
    def outs(ex, mem, ptrs, tag, args):
        for k, p_ in enumerate(ptrs): ex.store(mem, p_, None, ex.UF('%s_%d' % (tag, k), len(args))(*args))
    def nop(ex, a, mem): return None
    def angdiff(ex, a, mem): ex.store(mem, a[2], None, rsym.RV(0)); return z3.simplify(a[1] - a[0])
    def sincosd(ex, a, mem): ex.store(mem, a[1], None, ex.UF('sind', 1)(a[0])); ex.store(mem, a[2], None, ex.UF('cosd', 1)(a[0])); return None
    def sincosde(ex, a, mem):
        sv = ex.UF('sinde', 2)(a[0], a[1]); ex.store(mem, a[2], None, sv); ex.store(mem, a[3], None, ex.UF('cosde', 2)(a[0], a[1]))
        ex.cur.cond.append(sv == 0 if case == 'meridian' else sv != 0)          # case split on the abstract core: recorded in the path condition, so every claim is conditional on it
        return None
    k = 2 if exact else 1                     # the exact solver passes its EllipticFunction object first
    def invstart(ex, a, mem):
        args = a[k:k + 9]; outs(ex, mem, a[k + 9:k + 14], 'IS', args); r = ex.UF('IS_sig12', 9)(*args)
        if case == 'short': ex.cur.cond.append(r >= 0)
        elif case == 'newton': ex.cur.cond.append(r < 0)
        return r
    def lambda12(ex, a, mem):
        args = a[1:11]; outs(ex, mem, a[11:18], 'L12', args); ex.store(mem, a[19], None, ex.UF('L12_domg', 10)(*args))
        if not exact: ex.store(mem, a[18], None, ex.UF('L12_eps', 10)(*args))
        if isinstance(a[20], int) and (a[20] & 1): ex.store(mem, a[21], None, ex.UF('L12_dlam', 10)(*args))
        return rsym.RV(0)
    def lengths(ex, a, mem): args = a[2:11]; outs(ex, mem, a[12:17], 'LEN', args); return None
    def vecctor(ex, a, mem):                 # std::vector<double>(n): an opaque buffer; only its address is passed on (to the opaque DST routines)
        ex.new_obj(mem, 'C4a', {})
        for off in (0, 8, 16): ex.store(mem, rsym.Ptr(a[0].obj, a[0].off + off), None, rsym.Ptr('C4a', 0))
        return None
    def b4(ex, a, mem): return ex.UF('B4', 2)(a[1], a[2])
    def dstint(ex, a, mem): return ex.UF('B4', 2)(a[2], a[3]) - ex.UF('B4', 2)(a[0], a[1])
    opq = {'@_ZN13GeographicLib4Math7AngDiffIdEET_S2_S2_RS2_': angdiff, '@_ZN13GeographicLib4Math8AngRoundIdEET_S2_': lambda ex, a, mem: a[0], '@_ZN13GeographicLib4Math6LatFixIdEET_S2_': lambda ex, a, mem: a[0],
           '@_ZN13GeographicLib4Math7sincosdIdEEvT_RS2_S3_': sincosd, '@_ZN13GeographicLib4Math8sincosdeIdEEvT_S2_RS2_S3_': sincosde,
           '@_ZN13GeographicLib4Math3NaNIdEET_v': lambda ex, a, mem: z3.Real('NaN'), '@_ZN13GeographicLib4Math2piIdEET_v': lambda ex, a, mem: PI_, '@_ZN13GeographicLib4Math6degreeIdEET_v': lambda ex, a, mem: PI_ / 180,
           '@_ZNK13GeographicLib8Geodesic12InverseStartEdddddddddRdS1_S1_S1_S1_Pd': invstart, '@_ZNK13GeographicLib13GeodesicExact12InverseStartERNS_16EllipticFunctionEdddddddddRdS3_S3_S3_S3_': invstart,
           '@_ZNK13GeographicLib8Geodesic8Lambda12EddddddddddRdS1_S1_S1_S1_S1_S1_S1_S1_bS1_Pd': lambda12, '@_ZNK13GeographicLib13GeodesicExact8Lambda12EddddddddddRdS1_S1_S1_S1_S1_S1_RNS_16EllipticFunctionES1_bS1_': lambda12,
           '@_ZNK13GeographicLib8Geodesic7LengthsEddddddddddjRdS1_S1_S1_S1_Pd': lengths, '@_ZNK13GeographicLib13GeodesicExact7LengthsERKNS_16EllipticFunctionEdddddddddjRdS4_S4_S4_S4_': lengths,
           '@_ZN13GeographicLib8Geodesic12SinCosSeriesEbddPKdi': b4, '@_ZNK13GeographicLib8Geodesic3C4fEdPd': nop, '@_ZN13GeographicLib3DST8integralEddddPKdi': dstint,
           '@_ZN13GeographicLib16EllipticFunctionC2Edd': nop, '@_ZN13GeographicLib16EllipticFunction5ResetEdddd': nop, '@_ZN13GeographicLib13GeodesicExact11I4IntegrandC2Edd': nop,
           '@_ZNK13GeographicLib3DST9transformESt8functionIFddEEPd': nop, '@_ZNSt14_Function_baseD2Ev': nop, '@_ZNSt6vectorIdSaIdEEC2EmRKS0_': vecctor, '@_ZNSt6vectorIdSaIdEED2Ev': nop,
           '@_ZNSt8functionIFddEEC2IRN13GeographicLib13GeodesicExact11I4IntegrandEvEEOT_': nop}
    ex = rsym.Exec(m, opaque=opq, libm={'sqrt': U('sqrt', 1), 'hypot': U('hypot', 2), 'atan2': U('atan2', 2), 'sin': U('sin', 1), 'cos': U('cos', 1)}, assume=list(assume), path_cap=1024, timeout_ms=3000)
    def mk(ex, mem):
        ex.new_obj(mem, 'g', dict(cells)); ex.new_obj(mem, 'o', {8 * i: z3.Real('untouched_%s' % OUTS[i]) for i in range(9)})
        return [rsym.Ptr('g', 0), lat1, lon1, lat2, lon2, MASK_AREA] + [rsym.Ptr('o', 8 * i) for i in range(9)]
    return ex.run_all(GIX if exact else GI, mk)

def ob_diff_gi(ctx, s1, s2, sd, case):
    la1, la2, L, D = z3.Real('alat1'), z3.Real('alat2'), z3.Real('L'), z3.Real('D')
    base = [la1 > 0, la1 < 90, la2 > 0, la2 < 90, D > 0, D < 180, z3.Real('m_f') > 0, z3.Real('m_e2') > 0, z3.Real('m_a') > 0, z3.Real('m_f1') > 0]
    lat1, lat2 = (la1 if s1 > 0 else -la1 if s1 < 0 else rsym.RV(0)), (la2 if s2 > 0 else -la2 if s2 < 0 else rsym.RV(0))
    lon1, lon2 = L, (L + D if sd > 0 else L - D)
    B = _run_gi2(ctx, True, lat1, lon1, lat2, lon2, base, case); A = _run_gi2(ctx, False, lat1, lon1, lat2, lon2, base, case)
    s = z3.Solver(); s.set('timeout', 5000)
    def keys(p):
        cs = [z3.simplify(c) for c in p.cond[len(base):]]
        return frozenset(c.sexpr() for c in cs), frozenset(z3.simplify(z3.Not(c)).sexpr() for c in cs)
    KA = [keys(p) for p in A]; KB = [keys(p) for p in B]
    q = 0; ss = 0.0; bad = None; unk = []; pairs = 0; triv = 0
    print('D.GenInverse %s: %d x %d paths' % (case, len(A), len(B)), flush=True)
    for pa, (ka, na) in zip(A, KA):
        for pb, (kb, nb) in zip(B, KB):
            if nb & ka or na & kb: continue
            cond = list(pa.cond) + list(pb.cond[len(base):])
            if ka != kb:
                s.push(); s.add(*cond); feas = s.check(); s.pop()
                if feas == z3.unsat: continue
            pairs += 1
            va = [pa.ret] + [pa.mem['o'][8 * i] for i in range(9)]; vb = [pb.ret] + [pb.mem['o'][8 * i] for i in range(9)]
            for name, x, y in zip(['a12'] + OUTS, va, vb):
                cl = z3.simplify(x == y); q += 1
                if z3.is_true(cl): triv += 1; continue
                st, model, dt = rsym.prove(cl, cond, timeout_ms=20000); ss += dt
                if st == 'sat' and bad is None: bad = {'kind': 'c02diff', 'output': name, 'series': str(z3.simplify(x))[:300], 'exact': str(z3.simplify(y))[:300]}
                elif st == 'unknown': unk.append(name)
    r = {'queries': q, 'nontrivial': pairs, 'solver_s': round(ss, 3), 'functions': ['GeographicLib::Geodesic::GenInverse (13-argument overload)', 'GeographicLib::GeodesicExact::GenInverse (13-argument overload)', 'GeographicLib::Math::norm<double>, sq<double> (executed)'],
         'bounds': {'sign pattern (lat1, lat2, lon2-lon1)': [s1, s2, sd], 'paths': [len(A), len(B)], 'feasible path pairs': pairs, 'claims reduced to true by z3.simplify': triv, 'Newton iterations': 1, 'outmask': 'DISTANCE|AZIMUTH|REDUCEDLENGTH|GEODESICSCALE|AREA', 'case': case}}
    if bad: r.update({'verdict': 'violated', 'detail': 'GenInverse of the two solvers disagree on %s with the same abstract core: series %s, exact %s' % (bad['output'], bad['series'], bad['exact']), 'cex': bad})
    elif unk: r.update({'verdict': 'inconclusive', 'detail': 'unknown on outputs %r' % sorted(set(unk))})
    elif pairs == 0: r.update({'verdict': 'inconclusive', 'detail': 'no feasible path pair'})
    else: r['verdict'] = 'proved'
    return r

def obligations(ctx):
    obs = []
    desc = {'equator': 'reflection in the equator: s12, a12, m12, M12, M21 and the east components of both azimuths unchanged, north components change sign',
            'meridian': 'reflection in a meridian: s12, a12, m12, M12, M21 and the north components unchanged, east components change sign',
            'exchange': 'exchange of the end points: same geodesic traversed backwards (s12, a12, m12 unchanged, M12 and M21 exchanged, azimuths exchanged and reversed)'}
    QUICK = {('equator', 1, 1, 1), ('meridian', -1, 1, -1), ('meridian', 0, 0, -1), ('exchange', 1, -1, 1), ('exchange', -1, -1, -1), ('equator', -1, -1, -1)}
    pats = list(itertools.product((1, -1), (1, -1), (1, -1))) + [(0, 0, 1), (0, 0, -1)]
    for which in ('equator', 'meridian', 'exchange'):
        for s1, s2, sd in pats:
            if which in ('exchange', 'equator') and s1 == 0: continue      # equatorial problems are their own mirror image / an exchange tie (the documented non-uniqueness): only the meridian reflection is decided for them
            obs.append(Ob('S.%s.%s%s%s' % (which, '+' if s1 > 0 else '-' if s1 < 0 else '0', '+' if s2 > 0 else '-' if s2 < 0 else '0', 'E' if sd > 0 else 'W'), (lambda ctx, w=which, a=s1, b=s2, c=sd: ob_sym(ctx, w, a, b, c)), '[REAL] core opaque', 'E2 rsym+z3',
                          'Geodesic::GenInverse, ' + desc[which], timeout=1500, tier='quick' if (which, s1, s2, sd) in QUICK else 'thorough', bounds={'signs': [s1, s2, sd]}))
    QX = {('meridian', 0, 0, 1), ('meridian', 0, 0, -1)}
    for which in ('equator', 'meridian', 'exchange'):
        for s1, s2, sd in pats:
            if which in ('exchange', 'equator') and s1 == 0: continue
            obs.append(Ob('X.%s.%s%s%s' % (which, '+' if s1 > 0 else '-' if s1 < 0 else '0', '+' if s2 > 0 else '-' if s2 < 0 else '0', 'E' if sd > 0 else 'W'), (lambda ctx, w=which, a=s1, b=s2, c=sd: ob_sym(ctx, w, a, b, c, True)), '[REAL] core opaque', 'E2 rsym+z3',
                          'GeodesicExact::GenInverse, ' + desc[which], timeout=1500, tier='quick' if (which, s1, s2, sd) in QX else 'thorough', bounds={'signs': [s1, s2, sd]}))
    for (s1, s2, sd, case) in ((-1, 1, 1, 'short'), (-1, 1, 1, 'meridian'), (-1, 1, 1, 'newton')):
        obs.append(Ob('D.GenInverse.%s.%s%s%s' % (case, '+' if s1 > 0 else '-' if s1 < 0 else '0', '+' if s2 > 0 else '-' if s2 < 0 else '0', 'E' if sd > 0 else 'W'), (lambda ctx, a=s1, b=s2, c=sd, d=case: ob_diff_gi(ctx, a, b, c, d)), '[REAL] core opaque, shared by both solvers', 'E2 rsym+z3',
                      'series and exact solvers agree: Geodesic::GenInverse and GeodesicExact::GenInverse on the same symbolic problem and the same abstract numerical core write the same a12, s12, azimuth sines/cosines, m12, M12, M21 and S12 (canonical form, meridian / equatorial / short-line / Newton case selection, area assembly incl. both alp12 formulas and the sign restoration)',
                      timeout=1500, tier='quick', bounds={'signs': [s1, s2, sd], 'case': case}))
    for region in ('oblate', 'prolate'):
        obs.append(Ob('D.InverseStart.%s' % region, (lambda ctx, g=region: ob_diff_is(ctx, g)), '[REAL] leaf functions opaque', 'E2 rsym+z3',
                      'series and exact solvers agree: Geodesic::InverseStart and GeodesicExact::InverseStart (starting guess, short-line shortcut, antipodal/astroid arm) executed on the same symbolic inputs return the same sig12, salp1, calp1, salp2, calp2, dnm on every feasible pair of paths',
                      timeout=1500, tier='quick', bounds={'region': region}))
    return obs

def replay(rp):
    """real code (WGS84 and a prolate ellipsoid): the symmetry evaluated at a few points of the sign pattern of the counterexample"""
    cex = rp['cex']
    if cex.get('kind') == 'c02diff': return replay_diff(cex)
    lib = H.native({}, WX if cex.get('exact') else W); f = lib.vf_geninverse_exact if cex.get('exact') else lib.vf_geninverse; f.restype = ctypes.c_double; f.argtypes = [ctypes.c_double] * 6 + [ctypes.c_void_p]
    s1, s2, sd = cex['signs']; worst = 0; msg = ''
    for (a, fl) in ((6378137.0, 1 / 298.257223563), (6.4e6, -1 / 150.0)):
        for (la1, la2, L, D) in ((30.0, 50.0, 10.0, 70.0), (65.0, 20.0, -100.0, 150.0), (5.0, 80.0, 170.0, 40.0), (45.0, 44.0, 0.0, 179.0), (12.0, 11.0, 20.0, 179.7), (1.0, 2.0, -50.0, 179.9), (70.0, 71.0, 3.0, 0.001)):
            lat1, lat2, lon1, lon2 = s1 * la1, s2 * la2, L, L + sd * D
            A = (ctypes.c_double * 9)(); B = (ctypes.c_double * 9)()
            a12A = f(a, fl, lat1, lon1, lat2, lon2, A)
            if cex['which'] == 'equator': a12B = f(a, fl, -lat1, lon1, -lat2, lon2, B); want = [B[0], B[1], -B[2], B[3], -B[4], B[5], B[6], B[7]]
            elif cex['which'] == 'meridian': a12B = f(a, fl, lat1, -lon1, lat2, -lon2, B); want = [B[0], -B[1], B[2], -B[3], B[4], B[5], B[6], B[7]]
            else: a12B = f(a, fl, lat2, lon2, lat1, lon1, B); want = [B[0], -B[3], -B[4], -B[1], -B[2], B[5], B[7], B[6]]
            dev = max([abs(A[i] - want[i]) / max(1.0, abs(A[i])) for i in range(8)] + [abs(a12A - a12B)])
            if dev > worst: worst = dev; msg = 'a=%g f=%g (%g,%g)->(%g,%g): outputs %s vs expected from the transformed problem %s' % (a, fl, lat1, lon1, lat2, lon2, ['%.9g' % x for x in list(A)[:8]], ['%.9g' % x for x in want])
    return worst > 1e-9, ('GeodesicExact' if cex.get('exact') else 'Geodesic') + '::GenInverse on the real code, %s, sign pattern %r: largest relative asymmetry %.3g; %s' % (cex['which'], cex['signs'], worst, msg)

def replay_diff(cex):
    """real code: the series and the exact solver on the same problems (short lines, ordinary lines, the neighbourhood of the antipode down to 1e-9 deg); a disagreement of s12
    beyond 10 um (the documented accuracy of the series is 15 nm for |f| <= 1/150) reproduces the counterexample"""
    ls = H.native({}, W); lx = H.native({}, WX); fs = ls.vf_geninverse_area; fx = lx.vf_geninverse_exact_area
    for f_ in (fs, fx): f_.restype = ctypes.c_double; f_.argtypes = [ctypes.c_double] * 6 + [ctypes.c_void_p]
    worst = 0.0; msg = ''; n = 0; worstS = 0.0; msgS = ''
    pts = []
    for lat1 in (0.0, 0.3, -7.5, 30.0, -45.0, 60.0, 82.0):
        for d in (1e-9, 1e-8, 1e-7, 1e-6, 1e-4, 1e-2, 0.3):
            pts += [(lat1, 0.0, -lat1, 180 - d), (lat1, 100.0, -lat1 + d / 2, 100 - 180 + d), (lat1, 10.0, lat1 + d / 3, 10 + d), (lat1, -75.0, lat1 - d, -75.0 + 2 * d)]
        pts += [(lat1, 0.0, 20.0, 70.0), (lat1, 0.0, -lat1 + 1, 179.0), (lat1, 0.0, -lat1 - 0.2, 179.8)]
    polar = [(30.0, 0.0, 40.0, 180.0), (-20.0, 90.0, 50.0, -90.0), (10.0, 0.5, 60.0, -179.5), (-35.0, 7.25, -50.0, 187.25)]          # edges through a pole: alp12 = +-180, fixed up identically by both solvers
    pts += polar
    for (a, fl) in ((6378137.0, 1 / 298.257223563), (6378137.0, 1 / 150.0), (6378137.0, -1 / 150.0)):
        for (lat1, lon1, lat2, lon2) in pts:
            if abs(lat2) > 90: continue
            A = (ctypes.c_double * 9)(); B = (ctypes.c_double * 9)(); fs(a, fl, lat1, lon1, lat2, lon2, A); fx(a, fl, lat1, lon1, lat2, lon2, B); n += 1
            dev = abs(A[0] - B[0]); dev = dev if dev == dev else float('inf')
            if dev > worst: worst = dev; msg = 'a=%g f=%.9g (%.12g,%.12g)->(%.12g,%.12g): series s12 = %.6f m, exact s12 = %.6f m' % (a, fl, lat1, lon1, lat2, lon2, A[0], B[0])
            if fl == 1 / 298.257223563 and (abs(lon2 - lon1) < 170 or (lat1, lon1, lat2, lon2) in polar):            # area: documented accuracy of the series 0.1 m^2 on WGS84 (away from the antipode, where S12 is ill-conditioned)
                da = abs(A[8] - B[8]); da = da if da == da else float('inf')
                if da > worstS: worstS = da; msgS = '(%.12g,%.12g)->(%.12g,%.12g) on WGS84: series S12 = %.4f m^2, exact S12 = %.4f m^2' % (lat1, lon1, lat2, lon2, A[8], B[8])
    return (worst > 1e-5 or worstS > 0.5), 'Geodesic vs GeodesicExact on the real code at %d problems (disagreement reported by the solver on output %s): largest |s12 difference| %.3g m; %s; largest |S12 difference| %.3g m^2; %s' % (n, cex.get('output'), worst, msg, worstS, msgS)

MANIFEST = {
    'engine': 'E2',
    'technique': 'symbolic execution of the clang IR of Geodesic::GenInverse / GeodesicExact::GenInverse over z3 reals, run on a problem and on its reflected / exchanged image with the numerical core as deterministic uninterpreted functions; and of Geodesic::InverseStart against GeodesicExact::InverseStart on the same symbolic inputs (differential); outputs compared path pair by path pair (z3 validity queries)',
    'text': 'Bounded solver verdicts on the real code: the canonical-form bookkeeping of the series and of the exact inverse solver (sign of the longitude difference, end-point swap, hemisphere flip and their restoration in s12, the azimuth sines/cosines, m12, M12, M21, a12) '
            'makes the outputs transform exactly as the symmetries of the problem demand under reflection in the equator, reflection in a meridian and exchange of the end points, for all 8 sign patterns of the inputs. '
            'Series and exact solvers agree in everything but their numerical core: GenInverse of both solvers, executed on the same problem with one shared abstract core (meridian, short-line and Newton cases, area assembly with both alp12 formulas), writes the same a12, s12, azimuths, m12, M12, M21, S12 (sign pattern lat1 < 0 < lat2, eastward, f > 0); and on the starting guess: InverseStart of both solvers (short-line shortcut and its guards, spherical starting azimuth, the prolate antipodal/astroid arm) returns the same sig12, salp1, calp1, salp2, calp2, dnm on every feasible pair of paths for the same inputs (f < 0: whole function; f > 0: n > 1/10, where the A3/H-based antipodal arm is skipped).',
    'note': 'Numerical core opaque (uninterpreted): joining the points, shortestness, convergence, a12 range are not decided; agreement of the two solvers is decided for the GenInverse bookkeeping/area assembly around a shared abstract core (one sign pattern, f > 0) and for InverseStart (leaf functions sin, cos, sqrt, hypot, atan2, cbrt, Astroid, Lengths uninterpreted; oblate antipodal arm for n <= 1/10 excluded); one Newton evaluation; real semantics (no signed zeros, AngDiff = difference); ties excluded; AREA branch encoded only in the D.GenInverse obligations. Trusted: clang-14, vfw/irparse+rsym, z3.',
}
