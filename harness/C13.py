#!/usr/bin/env python3
"""C13 — error contract: constructor validation, NaN transparency (E1, FP mode N), plus the throw-frame / parser-safety obligations shared with C04, C05, C18"""
import os
from vfw.run import Ob
from vfw import e1, build
from harness import common as H

W = 'w_C13'; HC = os.path.join(build.VERIF, 'harness', 'C13', 'c13.c')
ASSUMPTIONS = [
    'FP mode N (NaN taint): an arithmetic or libm result is NaN if an operand is NaN and an arbitrary double (possibly NaN or infinite) otherwise; comparisons, fabs, copysign, min/max exact. Sound for "NaN in => NaN out" and "no exception for NaN"',
    'registered entry points only: Geocentric and PolarStereographic constructors; PolarStereographic::Forward and Geocentric::IntForward for NaN transparency; the string/position parsers and UTMUPS entry points through the C04/C05/C18 harnesses re-run here (quick string lengths)',
    'for NaN-transparency the object is an arbitrary image with finite members (what the validated constructor produces)',
    'hangs in convergence loops, stack exhaustion, allocation failure inside libstdc++ and entry points not registered are outside the claim; malformed data files: only the coefficient-header reader is targeted (thorough tier)',
]
ENT = {
    'Q1.ctor.Geocentric': (['@_ZN13GeographicLib10GeocentricC2Edd'], 'E_CTOR_GEOCENTRIC', [], 'Geocentric(a, f) returns normally iff a finite > 0 and f finite < 1; otherwise GeographicErr'),
    'Q1.ctor.PolarStereographic': (['@_ZN13GeographicLib18PolarStereographicC2Eddd'], 'E_CTOR_PS', [], 'PolarStereographic(a, f, k0) returns normally iff a, k0 finite > 0 and f finite < 1; otherwise GeographicErr'),
    'Q2.nan.PolarStereographic.Forward': (['@_ZNK13GeographicLib18PolarStereographic7ForwardEbddRdS1_S1_S1_'], 'E_NAN_PS', ['%"class.GeographicLib::PolarStereographic"'], 'PolarStereographic::Forward with a NaN coordinate: no exception, x and y NaN, k NaN for NaN latitude, gamma NaN for NaN longitude'),
    'Q2.nan.Geocentric.IntForward': (['@_ZNK13GeographicLib10Geocentric10IntForwardEdddRdS1_S1_Pd'], 'E_NAN_GEOC', ['%"class.GeographicLib::Geocentric"'], 'Geocentric::IntForward with a NaN argument: no exception, every dependent output NaN'),
}

def prepare(ctx):
    H.ir_module(ctx, W)
    import harness.C04 as C04, harness.C18 as C18, harness.C05 as C05
    for mod in (C04, C18, C05):
        try: mod.prepare(ctx)
        except Exception as e: ctx['c13_prepare_error'] = str(e)

def _cb(key, timeout=300):
    roots, define, types, _ = ENT[key]
    def run(ctx):
        m = H.ir_module(ctx, W)
        offs = [g for g in m.globals if g.startswith('@vf_off_PolarStereographic_')] if define == 'E_NAN_PS' else []
        return e1.cbmc_check(ctx, m, 'C13', roots, HC, function='harness', unwind=8, defines=[define], timeout=timeout, export_types=types, extra_globals=offs)
    run.cbmc_timeout = timeout
    return run

def obligations(ctx):
    obs = [Ob(k, _cb(k), '[BIT-N]', 'E1 cgen+cbmc', v[3], timeout=330, bounds={'arguments': 'all doubles'}) for k, v in ENT.items()]
    # Q3/Q4: throw-frame, "only GeographicErr", and memory safety of the parsers: the obligations of C04, C05 and C18 that carry these clauses
    import harness.C04 as C04, harness.C18 as C18, harness.C05 as C05
    sub = dict(ctx, tier='quick')
    for mod, pid, pick in ((C04, 'C04', ('Q3.', 'Q4.', 'Q6.DecodeZone.len3', 'Q6.DecodeZone.len5', 'Q1.StandardZone')), (C18, 'C18', ('Q2.gars.len6', 'Q2.geohash.len5', 'Q2.georef.len5', 'Q2.georef.len8', 'Q2.osgb.len6', 'Q1.gars', 'Q1.geohash')),
                           (C05, 'C05', ('Q4.Reverse.len5', 'Q4.Reverse.len8'))):
        for o in mod.obligations(sub):
            if any(o.name.startswith(p) for p in pick):
                obs.append(Ob('Q3Q4.%s.%s' % (pid, o.name), o.fn, o.sem, o.engine, '[frame / only-GeographicErr / no UB clauses] ' + o.desc, timeout=o.timeout, bounds=o.bounds))
    return obs

def replay(rp):
    ob = rp.get('obligation', '')
    if ob.startswith('Q3Q4.'):
        import importlib
        pid = ob.split('.')[1]
        return importlib.import_module('harness.' + pid).replay(rp)
    cex = rp['cex']
    if cex.get('function') == 'harness' and 'E_NAN_PS' in cex.get('defines', []):
        body = r'''
  using namespace GeographicLib; double x, y, g, k; const PolarStereographic& p = PolarStereographic::UPS();
  p.Forward(true, std::nan(""), 10.0, x, y, g, k); printf("k1=%a\n", k);
  p.Forward(false, 91.0, 10.0, x, y, g, k); printf("k2=%a\n", k);
'''
        r = H.native_run(W, body)
        import math
        ks = [float.fromhex(r['vals'][k]) for k in ('k1', 'k2') if k in r['vals']]
        bad = any(not math.isnan(k) for k in ks)
        return bad, 'PolarStereographic::UPS().Forward(lat = NaN / 91 (-> NaN)): returned scale k = %r, expected NaN' % ks
    return None, 'no concrete replay for %s' % ob

MANIFEST = {
    'engine': 'E1',
    'technique': 'bounded model checking (cbmc) of C generated from the clang IR with floating point as NaN taint: constructor acceptance predicates, NaN propagation, throw frames and parser memory safety on arbitrary bytes',
    'text': 'Bounded solver verdicts on the real code for the registered entry points: constructors accept exactly the documented parameter ranges and otherwise throw GeographicErr; NaN arguments raise no exception and every dependent output is NaN; '
            'failing calls throw only GeographicErr and leave their outputs untouched; the parsers are memory-safe on every byte string up to the stated lengths (shared harnesses of C04/C05/C18).',
    'note': 'Registered entry points only (listed in the evidence), quick string lengths; NaN-taint abstraction for arithmetic; data-file readers and the remaining classes are not covered in the quick tier. Trusted: clang-14, vfw/cgen, cbmc 6.11, stubs.',
}
