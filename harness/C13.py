#!/usr/bin/env python3
"""C13 — error contract: constructor validation, NaN transparency (E1, FP mode N), plus the throw-frame / parser-safety obligations shared with C04, C05, C18"""
import os
from vfw.run import Ob
from vfw import e1, build
from harness import common as H

W = 'w_C13'; HC = os.path.join(build.VERIF, 'harness', 'C13', 'c13.c')
ASSUMPTIONS = [
    'FP mode N (NaN taint): an arithmetic or libm result is NaN if an operand is NaN and an arbitrary double (possibly NaN or infinite) otherwise; comparisons, fabs, copysign, min/max exact. Sound for "NaN in => NaN out" and "no exception for NaN"',
    'registered entry points only: Geocentric and PolarStereographic constructors; PolarStereographic::Forward and Geocentric::IntForward for NaN transparency; the string/position parsers and UTMUPS entry points through the C04/C05/C18 harnesses re-run here (quick string lengths)',
    'for NaN-transparency the object is an arbitrary image with finite members (what the validated constructor produces)',
    'hangs in convergence loops, stack exhaustion, allocation failure inside libstdc++ and entry points not registered are outside the claim; malformed data files: only the header validation of SphericalEngine::coeff::readcoeffs is decided (stream as environment; read failures inside readarray are outside the claim)',
]
ENT = {
    'Q1.ctor.Geocentric': (['@_ZN13GeographicLib10GeocentricC2Edd'], 'E_CTOR_GEOCENTRIC', [], 'Geocentric(a, f) returns normally iff a finite > 0 and f finite < 1; otherwise GeographicErr'),
    'Q1.ctor.PolarStereographic': (['@_ZN13GeographicLib18PolarStereographicC2Eddd'], 'E_CTOR_PS', [], 'PolarStereographic(a, f, k0) returns normally iff a, k0 finite > 0 and f finite < 1; otherwise GeographicErr'),
    'Q2.nan.PolarStereographic.Forward': (['@_ZNK13GeographicLib18PolarStereographic7ForwardEbddRdS1_S1_S1_'], 'E_NAN_PS', ['%"class.GeographicLib::PolarStereographic"'], 'PolarStereographic::Forward with a NaN coordinate: no exception, x and y NaN, k NaN for NaN latitude, gamma NaN for NaN longitude'),
    'Q2.nan.Geocentric.IntForward': (['@_ZNK13GeographicLib10Geocentric10IntForwardEdddRdS1_S1_Pd'], 'E_NAN_GEOC', ['%"class.GeographicLib::Geocentric"'], 'Geocentric::IntForward with a NaN argument: no exception, every dependent output NaN'),
}

def prepare(ctx):
    H.ir_module(ctx, 'w_SphEng')
    H.ir_module(ctx, W)
    import harness.C04 as C04, harness.C18 as C18, harness.C05 as C05
    for mod in (C04, C18, C05):
        try: mod.prepare(ctx)
        except Exception as e: ctx['c13_prepare_error'] = str(e)

def _cb(key, timeout=300):
    roots, define, types, _ = ENT[key]
    def run(ctx):
        m = H.ir_module(ctx, W)
        offs = [g for g in m.globals if g.startswith('@vf_off_PolarStereographic_')] if define == 'E_NAN_PS' else []
        return e1.cbmc_check(ctx, m, 'C13', roots, HC, function='harness', unwind=8, defines=[define], timeout=timeout, export_types=types, extra_globals=offs)
    run.cbmc_timeout = timeout
    return run

HR = os.path.join(build.VERIF, 'harness', 'C13', 'c13r.c')
RC = '@_ZN13GeographicLib15SphericalEngine5coeff10readcoeffsERSiRiS3_RSt6vectorIdSaIdEES7_b'
def ob_readcoeffs(ctx):
    m = H.ir_module(ctx, 'w_SphEng')
    stops = ['@_ZStplIcSt11char_traitsIcESaIcEENSt7__cxx1112basic_stringIT_T0_T1_EEOS8_PKS5_', '@_ZStplIcSt11char_traitsIcESaIcEENSt7__cxx1112basic_stringIT_T0_T1_EEOS8_S9_', '@_ZStplIcSt11char_traitsIcESaIcEENSt7__cxx1112basic_stringIT_T0_T1_EEPKS5_OS8_',
             '@_ZN13GeographicLib7Utility3strIiEENSt7__cxx1112basic_stringIcSt11char_traitsIcESaIcEEET_i', '@_ZN13GeographicLib7Utility9readarrayIiiLb0EEEvRSiPT0_m', '@_ZN13GeographicLib7Utility9readarrayIddLb0EEEvRSiPT0_m',
             '@_ZNSi5seekgElSt12_Ios_Seekdir', '@_ZNSt6vectorIdSaIdEE17_M_default_appendEm']
    return e1.cbmc_check(ctx, m, 'C13', [RC], HR, function='harness_readcoeffs', unwind=8, defines=['VF_STR_MAX=4', 'VF_MEM_MAX=16'], timeout=600, stop=stops)
ob_readcoeffs.cbmc_timeout = 600

def obligations(ctx):
    obs = [Ob(k, _cb(k), '[BIT-N]', 'E1 cgen+cbmc', v[3], timeout=330, bounds={'arguments': 'all doubles'}) for k, v in ENT.items()]
    obs.append(Ob('Q5.readcoeffs.header', ob_readcoeffs, '[BIT] stream as environment', 'E1 cgen+cbmc', 'SphericalEngine::coeff::readcoeffs: a malformed header or request (not N >= M >= 0, not N = M = -1) is rejected with GeographicErr before any vector is sized; sizes are non-negative; only GeographicErr', timeout=630,
                  bounds={'N, N0': '(-2^14, 8)', 'M, M0': '(-2^14, 5)', 'truncate': 'both'}))
    # Q3/Q4: throw-frame, "only GeographicErr", and memory safety of the parsers: the obligations of C04, C05 and C18 that carry these clauses
    import harness.C04 as C04, harness.C18 as C18, harness.C05 as C05
    sub = dict(ctx, tier='quick')
    for mod, pid, pick in ((C04, 'C04', ('Q3.', 'Q4.', 'Q6.DecodeZone.len3', 'Q6.DecodeZone.len5', 'Q1.StandardZone')), (C18, 'C18', ('Q2.gars.len6', 'Q2.geohash.len5', 'Q2.georef.len5', 'Q2.georef.len8', 'Q2.osgb.len6', 'Q1.gars', 'Q1.geohash')),
                           (C05, 'C05', ('Q4.Reverse.len5', 'Q4.Reverse.len8'))):
        for o in mod.obligations(sub):
            if any(o.name.startswith(p) for p in pick):
                obs.append(Ob('Q3Q4.%s.%s' % (pid, o.name), o.fn, o.sem, o.engine, '[frame / only-GeographicErr / no UB clauses] ' + o.desc, timeout=o.timeout, bounds=o.bounds))
    return obs

def replay(rp):
    if rp.get('obligation', '').startswith('Q5.readcoeffs'):
        import ctypes
        inp = rp['cex'].get('inputs', {}); g = lambda k: int(inp.get(k, 0)) if not isinstance(inp.get(k), dict) else int(inp[k].get('repr', 0))
        N, M, N0, M0, tr = g('in_N'), g('in_M'), g('in_N0'), g('in_M0'), g('in_trunc')
        lib = H.native({}, 'w_SphEng'); f = lib.vf_readcoeffs; f.restype = ctypes.c_int; f.argtypes = [ctypes.c_int] * 5 + [ctypes.c_void_p]
        out = (ctypes.c_int * 2)(); rc = f(N, M, N0, M0, tr, out)
        ok = lambda n, m: (n >= m and m >= 0) or (n == -1 and m == -1)
        good = ok(N0, M0) and (not tr or ok(N, M))
        bad = rc == 2 or (not good and rc != 1) or (good and rc != 0)
        return bad, 'SphericalEngine::coeff::readcoeffs on the real code: file header (N0, M0) = (%d, %d), request (N, M) = (%d, %d), truncate = %d: %s' % (N0, M0, N, M, tr, {0: 'accepted, returns (N, M) = (%d, %d)' % (out[0], out[1]), 1: 'GeographicErr', 2: 'an exception other than GeographicErr'}[rc])
    ob = rp.get('obligation', '')
    if ob.startswith('Q3Q4.'):
        import importlib
        pid = ob.split('.')[1]
        return importlib.import_module('harness.' + pid).replay(rp)
    cex = rp['cex']
    if cex.get('function') == 'harness' and 'E_NAN_PS' in cex.get('defines', []):
        body = r'''
  using namespace GeographicLib; double x, y, g, k; const PolarStereographic& p = PolarStereographic::UPS();
  p.Forward(true, std::nan(""), 10.0, x, y, g, k); printf("k1=%a\n", k);
  p.Forward(false, 91.0, 10.0, x, y, g, k); printf("k2=%a\n", k);
'''
        r = H.native_run(W, body)
        import math
        ks = [float.fromhex(r['vals'][k]) for k in ('k1', 'k2') if k in r['vals']]
        bad = any(not math.isnan(k) for k in ks)
        return bad, 'PolarStereographic::UPS().Forward(lat = NaN / 91 (-> NaN)): returned scale k = %r, expected NaN' % ks
    return None, 'no concrete replay for %s' % ob

MANIFEST = {
    'engine': 'E1',
    'technique': 'bounded model checking (cbmc) of C generated from the clang IR with floating point as NaN taint: constructor acceptance predicates, NaN propagation, throw frames and parser memory safety on arbitrary bytes',
    'text': 'Bounded solver verdicts on the real code for the registered entry points: constructors accept exactly the documented parameter ranges and otherwise throw GeographicErr; NaN arguments raise no exception and every dependent output is NaN; '
            'failing calls throw only GeographicErr and leave their outputs untouched; the parsers are memory-safe on every byte string up to the stated lengths (shared harnesses of C04/C05/C18); the coefficient-file reader rejects a malformed header with GeographicErr before sizing anything from it.',
    'note': 'Registered entry points only (listed in the evidence), quick string lengths; NaN-taint abstraction for arithmetic; of the data-file readers only the header validation of SphericalEngine::coeff::readcoeffs is decided (stream as environment); the remaining classes are not covered. Trusted: clang-14, vfw/cgen, cbmc 6.11, stubs.',
}
