/* C18 encoder harnesses (E1, hybrid FP mode: add/sub/compare/floor/conversions precise; multiplications and divisions are
   delegated to the hook vf_muldiv, which returns an arbitrary value within the bounds that monotone, correctly rounded
   arithmetic implies, and records it; float->int conversion results are recorded too). */
#define VF_OPAQUE_MULDIV 1
#include <stdint.h>
void vf_conv_rec(int64_t v);
#define VF_CONV_REC(v) vf_conv_rec((int64_t)(v))
#include "fp_P.h"
#include "cxx.c"

double in_lat, in_lon, in_lonn; int in_prec; char in_init[3];
#define NREC 8
int nmd, nconv; int md_div[NREC]; double md_a[NREC], md_b[NREC], md_r[NREC]; int64_t conv[NREC];
void vf_conv_rec(int64_t v) { if (nconv < NREC) conv[nconv] = v; nconv++; }
#ifdef VF_REPLAY
extern double _ZN13GeographicLib4Math12AngNormalizeIdEET_S2_(double);
#endif
double __CPROVER_uninterpreted_vfmul(double, double); double __CPROVER_uninterpreted_vfdiv(double, double);
/* one multiplication / division: a deterministic but otherwise arbitrary function of its operands (uninterpreted), constrained by
   facts that hold for correctly rounded, monotone IEEE arithmetic; exact where the result is exactly representable */
double vf_muldiv_pure(int isdiv, double a, double b) {
#ifdef VF_REPLAY
  return isdiv ? a / b : a * b;
#else
  double r = isdiv ? __CPROVER_uninterpreted_vfdiv(a, b) : __CPROVER_uninterpreted_vfmul(a, b);
  if (isnan(a) || isnan(b)) return VF_NAN;
  if (isdiv && b == 0x1p45) return a * 0x1p-45;                        /* division by a power of two is exact */
  if (isdiv && b == 2.0) return a * 0.5;
  if (!isdiv && (b == 0.5 || b == 2.0 || b == 0.25 || b == 4.0)) return a * b;     /* scaling by a power of two is exact */
  if (isinf(a)) return a;
  __CPROVER_assume(!isnan(r) && !isinf(r));
  __CPROVER_assume(a == 0.0 ? r == 0.0 : ((a > 0.0) == (r > 0.0) || r == 0.0));
  if (!isdiv && b == 1.0 - 0x1p-53) { __CPROVER_assume(!(a == 90.0) || (r < 90.0 && r > 89.999999)); }       /* pole nudge */
  else if (!isdiv && b == 12.0) {            /* GARS: 5' units */
    __CPROVER_assume(!(a >= -180.0) || r >= -2160.0); __CPROVER_assume(!(a < 180.0) || r < 2160.0); __CPROVER_assume(!(a == 180.0) || r == 2160.0); __CPROVER_assume(!(a == -180.0) || r == -2160.0);
    __CPROVER_assume(!(a >= -90.0) || r >= -1080.0); __CPROVER_assume(!(a < 90.0) || r < 1080.0);
  } else if (!isdiv && b == 6e10) {          /* Georef: 1e-9 minute units */
    __CPROVER_assume(!(a >= -180.0) || r >= -1.08e13); __CPROVER_assume(!(a < 180.0) || r < 1.08e13); __CPROVER_assume(!(a == 180.0) || r == 1.08e13); __CPROVER_assume(!(a == -180.0) || r == -1.08e13);
    __CPROVER_assume(!(a >= -90.0) || r >= -5.4e12); __CPROVER_assume(!(a < 90.0) || r < 5.4e12);
  } else if (isdiv && b == 0x1.68p-38) {     /* Geohash: lon / (180/2^45) */
    __CPROVER_assume(!(a >= -180.0) || r >= -0x1p45); __CPROVER_assume(!(a < 180.0) || r < 0x1p45); __CPROVER_assume(!(a == 180.0) || r == 0x1p45); __CPROVER_assume(!(a == -180.0) || r == -0x1p45);
  } else if (isdiv && b == 0x1.68p-39) {     /* Geohash: lat / (90/2^45) */
    __CPROVER_assume(!(a >= -90.0) || r >= -0x1p45); __CPROVER_assume(!(a < 90.0) || r < 0x1p45);
  }
  return r;
#endif
}
double vf_muldiv(int site, int isdiv, double a, double b) { nmd++; return vf_muldiv_pure(isdiv, a, b); }
double __CPROVER_uninterpreted_angnorm(double);
double F__ZN13GeographicLib4Math12AngNormalizeIdEET_S2_(double x) {
  double r = __CPROVER_uninterpreted_angnorm(x);
  if (isnan(x) || isinf(x)) r = VF_NAN;
  else { __CPROVER_assume(r >= -180.0 && r <= 180.0); if (x >= -180.0 && x <= 180.0) r = x; }
  in_lonn = r; return r;
}
#include "gen.c"

#define PRE(MAXP) \
  vf_string strobj; char* str = (char*)&strobj; \
  IN(in_lat, nondet_double()); IN(in_lon, nondet_double()); IN(in_prec, nondet_int()); IN(in_init[0], nondet_char()); IN(in_init[1], nondet_char()); in_init[2] = 0; \
  S_P(str) = S_BUF(str); vf_str_init(str, in_init, 2); vf_exc = 0; nmd = nconv = 0;
#define UNTOUCHED (S_N(str) == 2 && S_P(str)[0] == in_init[0] && S_P(str)[1] == in_init[1])
static int streq(char* s, const char* w) { uint64_t n = 0; while (w[n]) n++; if (S_N(s) != n) return 0; for (uint64_t i = 0; i < n && i < 8; i++) if (S_P(s)[i] != w[i]) return 0; return 1; }
static int tabidx(const char* tab, char c) { for (int i = 0; i < 40 && tab[i]; i++) if (tab[i] == c) return i; return -1; }
/* exact floor as integer, by comparison only (|r| < 2^62) */
static int floor_is(double r, int64_t k) { return (double)k <= r && r < (double)k + 1.0; }

void harness_gars_fwd(void) {
  PRE(2)
  F__ZN13GeographicLib4GARS7ForwardEddiRNSt7__cxx1112basic_stringIcSt11char_traitsIcESaIcEEE(in_lat, in_lon, (uint32_t)in_prec, str);
  if (in_lat > 90.0 || in_lat < -90.0) { __CPROVER_assert(vf_exc == 1 && UNTOUCHED, "GARS::Forward: |lat| > 90 throws GeographicErr, output untouched"); return; }
  __CPROVER_assert(vf_exc == 0, "GARS::Forward: no exception for |lat| <= 90 or NaN");
  if (isnan(in_lat) || isnan(in_lon)) { __CPROVER_assert(streq(str, "INVALID"), "GARS::Forward: NaN position gives INVALID"); return; }
  if (isinf(in_lon)) { __CPROVER_assert(streq(str, "INVALID"), "GARS::Forward: infinite longitude gives INVALID"); return; }
  int prec = in_prec < 0 ? 0 : in_prec > 2 ? 2 : in_prec;
  __CPROVER_assert(S_N(str) == (uint64_t)(5 + prec), "GARS code length is 5 + precision");
  char* c = S_P(str);
  int a = c[0] - '0', b = c[1] - '0', d = c[2] - '0', l1 = tabidx("ABCDEFGHJKLMNPQRSTUVWXYZ", c[3]), l2 = tabidx("ABCDEFGHJKLMNPQRSTUVWXYZ", c[4]);
  __CPROVER_assert(a >= 0 && a <= 9 && b >= 0 && b <= 9 && d >= 0 && d <= 9 && l1 >= 0 && l2 >= 0, "GARS code uses the scheme's alphabet");
  int ilon = 100 * a + 10 * b + d - 1, ilat = 24 * l1 + l2;
  __CPROVER_assert(ilon >= 0 && ilon < 720 && ilat >= 0 && ilat < 360, "GARS band 001..720 and AA..QZ");
  double lonf = in_lonn == 180.0 ? -180.0 : in_lonn, latf = in_lat == 90.0 ? vf_muldiv_pure(0, 90.0, 1.0 - 0x1p-53) : in_lat;
  double rlon = vf_muldiv_pure(0, lonf, 12.0), rlat = vf_muldiv_pure(0, latf, 12.0);   /* position in 5' units */
#ifdef VF_REPLAY
  in_lonn = _ZN13GeographicLib4Math12AngNormalizeIdEET_S2_(in_lon); lonf = in_lonn == 180.0 ? -180.0 : in_lonn; rlon = lonf * 12.0; rlat = latf * 12.0;
#endif
  __CPROVER_assert(rlon >= -2160.0 && rlon < 2160.0 && rlat >= -1080.0 && rlat < 1080.0, "scaled coordinates in range");
  int64_t cx = (int64_t)vf_floor(rlon), cy = (int64_t)vf_floor(rlat);      /* reference cell indices */
#ifndef VF_REPLAY
  __CPROVER_assert(nconv == 2 && ((conv[0] == cx && conv[1] == cy) || (conv[0] == cy && conv[1] == cx)), "the integers the code extracts are the floors of the normalised (180 folded, pole nudged) position in 5' units: cells closed on the south/west edges");
#endif
  int64_t X = cx + 2160, Y = cy + 1080;     /* position in 5' units from (-180,-90) */
  __CPROVER_assert(X / 6 == ilon && Y / 6 == ilat, "30' cell of the code contains the point");
  if (prec >= 1) { int k = c[5] - '1'; __CPROVER_assert(k >= 0 && k <= 3 && (X % 6) / 3 == k % 2 && (Y % 6) / 3 == 1 - k / 2, "15' quadrant (numbered from the north-west) contains the point"); }
  if (prec >= 2) { int k = c[6] - '1'; __CPROVER_assert(k >= 0 && k <= 8 && (X % 3) == k % 3 && (Y % 3) == 2 - k / 3, "5' keypad cell contains the point"); }
  VF_WITNESS("end of harness_gars_fwd");
}

void harness_geohash_fwd(void) {
  PRE(18)
#ifdef GH_MAXLEN_ASSUME
  __CPROVER_assume(in_prec <= GH_MAXLEN);
#endif
  F__ZN13GeographicLib7Geohash7ForwardEddiRNSt7__cxx1112basic_stringIcSt11char_traitsIcESaIcEEE(in_lat, in_lon, (uint32_t)in_prec, str);
  if (in_lat > 90.0 || in_lat < -90.0) { __CPROVER_assert(vf_exc == 1 && UNTOUCHED, "Geohash::Forward: |lat| > 90 throws GeographicErr, output untouched"); return; }
  __CPROVER_assert(vf_exc == 0, "Geohash::Forward: no exception for |lat| <= 90 or NaN");
  if (isnan(in_lat) || isnan(in_lon)) { __CPROVER_assert(streq(str, "invalid"), "Geohash::Forward: NaN position gives invalid"); return; }
  if (isinf(in_lon)) { __CPROVER_assert(streq(str, "invalid"), "Geohash::Forward: infinite longitude gives invalid"); return; }
  int len = in_prec < 0 ? 0 : in_prec > GH_MAXLEN ? GH_MAXLEN : in_prec;
  __CPROVER_assert(S_N(str) == (uint64_t)(in_prec < 0 ? 0 : in_prec > 18 ? 18 : in_prec), "geohash length is the clamped precision");
  if (len == 0) { VF_WITNESS("geohash empty"); return; }       /* nothing further is observable (the compiler sinks the scaling into the loop) */
  double lonf = in_lonn == 180.0 ? -180.0 : in_lonn, latf = in_lat == 90.0 ? 90.0 - 0x1.68p-40 : in_lat;
  double rlon = vf_muldiv_pure(1, lonf, 0x1.68p-38), rlat = vf_muldiv_pure(1, latf, 0x1.68p-39);
#ifdef VF_REPLAY
  in_lonn = _ZN13GeographicLib4Math12AngNormalizeIdEET_S2_(in_lon); lonf = in_lonn == 180.0 ? -180.0 : in_lonn; rlon = lonf / 0x1.68p-38;
#endif
  __CPROVER_assert(rlon >= -0x1p45 && rlon < 0x1p45 && rlat >= -0x1p45 && rlat < 0x1p45, "scaled coordinates lie in [-2^45, 2^45)");
  uint64_t ulon = (uint64_t)((int64_t)vf_floor(rlon) + (1LL << 45)), ulat = (uint64_t)((int64_t)vf_floor(rlat) + (1LL << 45));   /* reference cell indices */
#ifndef VF_REPLAY
  __CPROVER_assert(nconv == 2 && (((uint64_t)conv[0] == ulon && (uint64_t)conv[1] == ulat) || ((uint64_t)conv[0] == ulat && (uint64_t)conv[1] == ulon)),
                   "the integers the code extracts are floor(lon/loneps)+2^45 and floor(lat/lateps)+2^45 of the normalised position (cells closed on the south/west edges)");
#endif
  for (int i = 0; i < len && i < GH_MAXLEN; i++) {
    int v = 0;
    for (int j = 0; j < 5; j++) { int bit = 5 * i + j; uint64_t w = (bit & 1) ? ulat : ulon; v = 2 * v + (int)((w >> (45 - bit / 2)) & 1); }
    __CPROVER_assert(S_P(str)[i] == "0123456789bcdefghjkmnpqrstuvwxyz"[v], "geohash character = 5 interleaved bits (lon first) in the base-32 alphabet");
  }
  VF_WITNESS("end of harness_geohash_fwd");
}

void harness_georef_fwd(void) {
  PRE(11)
#ifdef GR_MAXPREC
  __CPROVER_assume(in_prec <= GR_MAXPREC);
#endif
  F__ZN13GeographicLib6Georef7ForwardEddiRNSt7__cxx1112basic_stringIcSt11char_traitsIcESaIcEEE(in_lat, in_lon, (uint32_t)in_prec, str);
  if (in_lat > 90.0 || in_lat < -90.0) { __CPROVER_assert(vf_exc == 1 && UNTOUCHED, "Georef::Forward: |lat| > 90 throws GeographicErr, output untouched"); return; }
  __CPROVER_assert(vf_exc == 0, "Georef::Forward: no exception for |lat| <= 90 or NaN");
  if (isnan(in_lat) || isnan(in_lon)) { __CPROVER_assert(streq(str, "INVALID"), "Georef::Forward: NaN position gives INVALID"); return; }
  if (isinf(in_lon)) { __CPROVER_assert(streq(str, "INVALID"), "Georef::Forward: infinite longitude gives INVALID"); return; }
  int prec = in_prec < -1 ? -1 : in_prec > 11 ? 11 : in_prec; if (prec == 1) prec = 2;
  __CPROVER_assert(S_N(str) == (uint64_t)(4 + 2 * prec), "georef length is 4 + 2 * precision (2 for precision -1)");
  double lonf = in_lonn == 180.0 ? -180.0 : in_lonn, latf = in_lat == 90.0 ? vf_muldiv_pure(0, 90.0, 1.0 - 0x1p-53) : in_lat;
  double rlon = vf_muldiv_pure(0, lonf, 6e10), rlat = vf_muldiv_pure(0, latf, 6e10);
#ifdef VF_REPLAY
  in_lonn = _ZN13GeographicLib4Math12AngNormalizeIdEET_S2_(in_lon); lonf = in_lonn == 180.0 ? -180.0 : in_lonn; rlon = lonf * 6e10; rlat = latf * 6e10;
#endif
  __CPROVER_assert(rlon >= -1.08e13 && rlon < 1.08e13 && rlat >= -5.4e12 && rlat < 5.4e12, "scaled coordinates in range");
  int64_t cx = (int64_t)vf_floor(rlon), cy = (int64_t)vf_floor(rlat);      /* reference cell indices */
#ifndef VF_REPLAY
  __CPROVER_assert(nconv >= 2 && ((conv[0] == cx && conv[1] == cy) || (conv[0] == cy && conv[1] == cx)), "the integers the code extracts are the floors of the normalised (180 folded, pole nudged) position in units of 1e-9 minutes");
#endif
  int64_t m = 60000000000LL, X = cx + 180 * m, Y = cy + 90 * m;
  char* c = S_P(str);
  int t1 = tabidx("ABCDEFGHJKLMNPQRSTUVWXYZ", c[0]), t2 = tabidx("ABCDEFGHJKLM", c[1]);
  __CPROVER_assert(t1 >= 0 && t2 >= 0 && t1 == X / m / 15 && t2 == Y / m / 15, "15-degree tile letters contain the point");
  if (prec >= 0) {
    int d1 = tabidx("ABCDEFGHJKLMNPQ", c[2]), d2 = tabidx("ABCDEFGHJKLMNPQ", c[3]);
    __CPROVER_assert(d1 >= 0 && d2 >= 0 && d1 == (X / m) % 15 && d2 == (Y / m) % 15, "degree letters contain the point");
  }
  if (prec >= 2) {
    int64_t p10 = 1; for (int i = 0; i < 11 - prec && i < 11; i++) p10 *= 10;
    int64_t vx = 0, vy = 0; int okd = 1;
    for (int i = 0; i < prec && i < 11; i++) { int a = c[4 + i] - '0', b = c[4 + prec + i] - '0'; okd = okd && a >= 0 && a <= 9 && b >= 0 && b <= 9; vx = 10 * vx + a; vy = 10 * vy + b; }
    __CPROVER_assert(okd, "minutes are decimal digits");
    __CPROVER_assert(vx == (X % m) / p10 && vy == (Y % m) / p10, "minute digits are the truncated fraction of the degree (so lower precision is a prefix)");
  }
  VF_WITNESS("end of harness_georef_fwd");
}
