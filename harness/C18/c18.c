/* C18 harnesses (E1): the Reverse parsers of Geohash, GARS, Georef and OSGB on arbitrary byte strings.
   FP mode is chosen by -DFPMODE_P (values checked) or default N (language, frame, memory safety). */
#ifdef FPMODE_P
#include "fp_P.h"
#else
#include "fp_N.h"
#endif
#include "cxx.c"
double F__ZN13GeographicLib4Math3NaNIdEET_v(void) { return VF_NAN; }
#include "gen.c"

#ifndef SLEN
#define SLEN 5
#endif
char in_s[SLEN + 1]; double in_lat0, in_lon0; int in_prec0; int in_centerp;
static int up(int c) { return (c >= 'a' && c <= 'z') ? c - 32 : c; }
static int idx(const char* tab, int c) { c = up(c); if (c == 0) return -1; for (int i = 0; i < 40 && tab[i]; i++) if (tab[i] == c) return i; return -1; }
static int sameb(double a, double b) { return vf_d2bits(a) == vf_d2bits(b); }
static int isdig(int c) { return c >= '0' && c <= '9'; }

#define SETUP \
  vf_string strobj; char* str = (char*)&strobj; \
  for (int i = 0; i < SLEN; i++) IN(in_s[i], nondet_char()); \
  in_s[SLEN] = 0; S_P(str) = S_BUF(str); vf_str_init(str, in_s, SLEN); \
  IN(in_lat0, nondet_double()); IN(in_lon0, nondet_double()); IN(in_prec0, nondet_int()); IN(in_centerp, nondet_int() & 1); \
  double lat = in_lat0, lon = in_lon0; int prec = in_prec0; vf_exc = 0;
#define INV3 (SLEN >= 3 && up(in_s[0]) == 'I' && up(in_s[1]) == 'N' && up(in_s[2]) == 'V')
#define CHECK_REJECT(what) do { __CPROVER_assert(vf_exc == 1, what ": invalid code rejected with GeographicErr"); \
  __CPROVER_assert(sameb(lat, in_lat0) && sameb(lon, in_lon0) && prec == in_prec0, what ": outputs untouched on throw"); } while (0)

void harness_gars(void) {
  SETUP
  F__ZN13GeographicLib4GARS7ReverseERKNSt7__cxx1112basic_stringIcSt11char_traitsIcESaIcEEERdS9_Rib(str, (char*)&lat, (char*)&lon, (char*)&prec, (uint8_t)in_centerp);
  if (INV3) { __CPROVER_assert(vf_exc == 0 && isnan(lat) && isnan(lon), "GARS: INV... decodes to NaN"); VF_WITNESS("gars inv"); return; }
  int ok = SLEN >= 5 && SLEN <= 7; int ilon = 0, ilat = 0, k6 = 0, k7 = 0;
  if (ok) {
    ok = isdig(in_s[0]) && isdig(in_s[1]) && isdig(in_s[2]);
    ilon = (in_s[0] - '0') * 100 + (in_s[1] - '0') * 10 + (in_s[2] - '0');
    int a = idx("ABCDEFGHJKLMNPQRSTUVWXYZ", in_s[3]), b = idx("ABCDEFGHJKLMNPQRSTUVWXYZ", in_s[4]);
    ilat = 24 * a + b;
    ok = ok && ilon >= 1 && ilon <= 720 && a >= 0 && b >= 0 && ilat < 360;
    if (SLEN >= 6) { k6 = in_s[5] - '0'; ok = ok && in_s[5] >= '1' && in_s[5] <= '4'; }
    if (SLEN >= 7) { k7 = in_s[6] - '0'; ok = ok && in_s[6] >= '1' && in_s[6] <= '9'; }
  }
  if (!ok) { CHECK_REJECT("GARS"); VF_WITNESS("gars reject"); return; }
  __CPROVER_assert(vf_exc == 0 && prec == SLEN - 5, "GARS: valid code accepted with precision = length - 5");
#ifdef FPMODE_P
  { /* cell indices in units of the finest cell: 30' cell (ilon-1, ilat), quadrant k6 (row from the north), keypad k7 */
    int u = 2, x = ilon - 1, y = ilat;
    if (SLEN >= 6) { u *= 2; y = 2 * y + (1 - (k6 - 1) / 2); x = 2 * x + ((k6 - 1) % 2); }
    if (SLEN >= 7) { u *= 3; y = 3 * y + (2 - (k7 - 1) / 3); x = 3 * x + ((k7 - 1) % 3); }
    /* south-west corner = (-90 + y/u, -180 + x/u), centre adds half a cell: as exact rationals with denominator 2u */
    int num_lat = 2 * (y - 90 * u) + (in_centerp ? 1 : 0), num_lon = 2 * (x - 180 * u) + (in_centerp ? 1 : 0);
    __CPROVER_assert(lat * (2 * u) == (double)num_lat && lon * (2 * u) == (double)num_lon, "GARS: decoded point is the SW corner / centre of the cell (exact: denominators 2u divide evenly or values are dyadic*3)");
  }
#endif
  VF_WITNESS("gars accept");
}

void harness_geohash(void) {
  SETUP
  F__ZN13GeographicLib7Geohash7ReverseERKNSt7__cxx1112basic_stringIcSt11char_traitsIcESaIcEEERdS9_Rib(str, (char*)&lat, (char*)&lon, (char*)&prec, (uint8_t)in_centerp);
  int n = SLEN < 18 ? SLEN : 18;
  if (INV3 || (SLEN >= 3 && up(in_s[0]) == 'N' && up(in_s[1]) == 'A' && up(in_s[2]) == 'N')) {
    __CPROVER_assert(vf_exc == 0 && isnan(lat) && isnan(lon), "Geohash: INV.../NAN... decodes to NaN"); VF_WITNESS("geohash inv"); return; }
  int ok = 1;
  for (int i = 0; i < n; i++) ok = ok && idx("0123456789BCDEFGHJKMNPQRSTUVWXYZ", in_s[i]) >= 0;
  if (!ok) { CHECK_REJECT("Geohash"); VF_WITNESS("geohash reject"); return; }
  __CPROVER_assert(vf_exc == 0 && prec == n, "Geohash: valid code accepted with len = min(18, length)");
  VF_WITNESS("geohash accept");
}

void harness_georef(void) {
  SETUP
  F__ZN13GeographicLib6Georef7ReverseERKNSt7__cxx1112basic_stringIcSt11char_traitsIcESaIcEEERdS9_Rib(str, (char*)&lat, (char*)&lon, (char*)&prec, (uint8_t)in_centerp);
  if (INV3) { __CPROVER_assert(vf_exc == 0 && isnan(lat) && isnan(lon), "Georef: INV... decodes to NaN"); VF_WITNESS("georef inv"); return; }
  int ok = SLEN >= 2 && SLEN != 3 && (SLEN <= 4 || (SLEN % 2 == 0 && SLEN >= 8 && SLEN <= 26));
  if (ok) {
    ok = idx("ABCDEFGHJKLMNPQRSTUVWXYZ", in_s[0]) >= 0 && idx("ABCDEFGHJKLM", in_s[1]) >= 0;
    if (SLEN >= 4) ok = ok && idx("ABCDEFGHJKLMNPQ", in_s[2]) >= 0 && idx("ABCDEFGHJKLMNPQ", in_s[3]) >= 0;
    for (int i = 4; i < SLEN; i++) ok = ok && isdig(in_s[i]);
    if (SLEN >= 8) ok = ok && in_s[4] < '6' && in_s[4 + (SLEN - 4) / 2] < '6';
  }
  if (!ok) { CHECK_REJECT("Georef"); VF_WITNESS("georef reject"); return; }
  __CPROVER_assert(vf_exc == 0 && prec == (SLEN <= 2 ? -1 : SLEN <= 4 ? 0 : (SLEN - 4) / 2), "Georef: valid code accepted with the documented precision");
  VF_WITNESS("georef accept");
}

void harness_osgb(void) {
  SETUP
  F__ZN13GeographicLib4OSGB13GridReferenceERKNSt7__cxx1112basic_stringIcSt11char_traitsIcESaIcEEERdS9_Rib(str, (char*)&lat, (char*)&lon, (char*)&prec, (uint8_t)in_centerp);
  if (SLEN >= 2 && up(in_s[0]) == 'I' && up(in_s[1]) == 'N') { __CPROVER_assert(vf_exc == 0 && isnan(lat) && isnan(lon) && prec == -2, "OSGB: IN... decodes to NaN, prec -2"); VF_WITNESS("osgb inv"); return; }
  char g[SLEN + 1]; int p = 0;
  for (int i = 0; i < SLEN; i++) if (!(in_s[i] == ' ' || (in_s[i] >= 9 && in_s[i] <= 13))) g[p++] = in_s[i];
  int ok = p >= 2 && p % 2 == 0 && p <= 24;
  if (ok) {
    ok = idx("ABCDEFGHJKLMNOPQRSTUVWXYZ", g[0]) >= 0 && idx("ABCDEFGHJKLMNOPQRSTUVWXYZ", g[1]) >= 0;
    for (int i = 2; i < p; i++) ok = ok && isdig(g[i]);
  }
  if (!ok) { CHECK_REJECT("OSGB"); VF_WITNESS("osgb reject"); return; }
  __CPROVER_assert(vf_exc == 0 && prec == (p - 2) / 2, "OSGB: valid grid reference accepted with precision = digits / 2");
  VF_WITNESS("osgb accept");
}
