/* C08 harnesses (E1, FP mode P with libm by contract): crossing counters on the integer-degree lattice, one-step frames of the polygon
   state machine (solvers opaque), constness of the tentative queries */
#ifdef STEP
#include "fp_G.h"        /* bookkeeping obligations: arithmetic values are irrelevant; one uninterpreted function per operation, so that inlined and
                            stand-alone copies of the crossing counters agree by congruence */
double __CPROVER_uninterpreted_angdiff(uint64_t, uint64_t); double __CPROVER_uninterpreted_angdiffe(uint64_t, uint64_t); double __CPROVER_uninterpreted_angnorm(uint64_t);
#else
#include "fp_P.h"
#endif
#include "cxx.c"
double F__ZN13GeographicLib4Math3NaNIdEET_v(void) { return VF_NAN; }
#ifdef STEP
/* Math::AngDiff / AngNormalize: pure functions of their arguments (by bit pattern) */
double F__ZN13GeographicLib4Math7AngDiffIdEET_S2_S2_RS2_(double a, double b, char* e) { *(double*)e = __CPROVER_uninterpreted_angdiffe(vf_d2bits(a), vf_d2bits(b)); return __CPROVER_uninterpreted_angdiff(vf_d2bits(a), vf_d2bits(b)); }
double F__ZN13GeographicLib4Math12AngNormalizeIdEET_S2_(double a) { return __CPROVER_uninterpreted_angnorm(vf_d2bits(a)); }
#endif
/* the geodesic solvers are opaque: arbitrary outputs for the requested quantities, recorded */
double gi_s12, gi_S12, gd_lat, gd_lon, gd_S12; int gi_calls, gd_calls; double gi_args[4];
double F__ZNK13GeographicLib8Geodesic10GenInverseEddddjRdS1_S1_S1_S1_S1_S1_(char* g, double lat1, double lon1, double lat2, double lon2, uint32_t mask, char* s12, char* a1, char* a2, char* m12, char* M12, char* M21, char* S12) {
  gi_calls++; gi_args[0] = lat1; gi_args[1] = lon1; gi_args[2] = lat2; gi_args[3] = lon2;
  gi_s12 = nondet_double(); gi_S12 = nondet_double(); *(double*)s12 = gi_s12; *(double*)S12 = gi_S12; return nondet_double(); }
double F__ZNK13GeographicLib8Geodesic9GenDirectEdddbdjRdS1_S1_S1_S1_S1_S1_S1_(char* g, double lat1, double lon1, double azi, uint8_t arc, double s, uint32_t mask, char* lat2, char* lon2, char* azi2, char* s12, char* m12, char* M12, char* M21, char* S12) {
  gd_calls++; gd_lat = nondet_double(); gd_lon = nondet_double(); gd_S12 = nondet_double(); *(double*)lat2 = gd_lat; *(double*)lon2 = gd_lon; *(double*)S12 = gd_S12; return nondet_double(); }
#include "gen.c"
static int sameb(double a, double b) { return vf_d2bits(a) == vf_d2bits(b); }
static int isint(double x) { return x == (double)(int)x; }

double in_lon1, in_lon2;
#ifndef STEP
/* transit: prime-meridian crossings of the shortest longitude path, on the integer-degree lattice |lon| <= 540 where AngDiff,
   AngNormalize and the sum are exact: equals floor((l1 + lon12)/360) - floor(l1/360) with l1 = AngNormalize(lon1), +-0 counted as positive */
void harness_transit(void) {
  IN(in_lon1, nondet_double()); IN(in_lon2, nondet_double());
  __CPROVER_assume(in_lon1 >= -540.0 && in_lon1 <= 540.0 && in_lon2 >= -540.0 && in_lon2 <= 540.0 && isint(in_lon1) && isint(in_lon2));
  int t = (int)F__ZN13GeographicLib12PolygonAreaTINS_8GeodesicEE7transitEdd(in_lon1, in_lon2);
  double e, lon12 = F__ZN13GeographicLib4Math7AngDiffIdEET_S2_S2_RS2_(in_lon1, in_lon2, (char*)&e);
  double l1 = F__ZN13GeographicLib4Math12AngNormalizeIdEET_S2_(in_lon1);
  double s = l1 + lon12;
  int k1 = l1 < 0.0 ? -1 : 0, k2 = s < 0.0 ? -1 : (s >= 360.0 ? 1 : 0);
  __CPROVER_assert(e == 0.0 && lon12 >= -180.0 && lon12 <= 180.0, "on the lattice the longitude difference is exact");
  if (lon12 == 180.0 || lon12 == -180.0) return;      /* antipodal longitudes: the shortest edge is not unique (excluded by the property) */
  __CPROVER_assert(t == k2 - k1, "transit = floor((l1 + lon12)/360) - floor(l1/360): +1 / -1 exactly when the shortest path crosses longitude 0 east / west");
  VF_WITNESS("end of harness_transit");
}

/* transitdirect: parity of floor(lon2/360) - floor(lon1/360) for unrolled longitudes, |lon| < 1080 (remainder exact there) */
static int fl360(double x) { return x >= 720.0 ? 2 : x >= 360.0 ? 1 : x >= 0.0 ? 0 : x >= -360.0 ? -1 : x >= -720.0 ? -2 : -3; }
void harness_transitdirect(void) {
  IN(in_lon1, nondet_double()); IN(in_lon2, nondet_double());
  __CPROVER_assume(in_lon1 > -1080.0 && in_lon1 < 1080.0 && in_lon2 > -1080.0 && in_lon2 < 1080.0);
  int t = (int)F__ZN13GeographicLib12PolygonAreaTINS_8GeodesicEE13transitdirectEdd(in_lon1, in_lon2);
  int d = fl360(in_lon2) - fl360(in_lon1);
  __CPROVER_assert(t >= -1 && t <= 1 && ((t - d) & 1) == 0, "transitdirect has the parity of floor(lon2/360) - floor(lon1/360)");
  VF_WITNESS("end of harness_transitdirect");
}
#endif

#ifdef STEP
/* one step of the state machine from an arbitrary state */
VT_class_GeographicLib__PolygonAreaT in_p; VT_class_GeographicLib__PolygonAreaT nondet_poly(void);
#define OFF(x) (*(long*)&G_vf_off_PolygonArea_G_##x)
#define FLD(T, x) (*(T*)(pp + OFF(x)))
double in_lat, in_lon; int in_rev, in_sign;
void harness_addpoint(void) {
  in_p = nondet_poly(); char* pp = (char*)&in_p;
  IN(in_lat, nondet_double()); IN(in_lon, nondet_double());
  VT_class_GeographicLib__PolygonAreaT old = in_p; char* op = (char*)&old;
#define OLD(T, x) (*(T*)(op + OFF(x)))
  __CPROVER_assume(FLD(unsigned, _num) < 1000000u && FLD(int, _crossings) > -1000000 && FLD(int, _crossings) < 1000000 && FLD(unsigned char, _polyline) <= 1);
  gi_calls = gd_calls = 0; vf_exc = 0;
  F__ZN13GeographicLib12PolygonAreaTINS_8GeodesicEE8AddPointEdd(pp, in_lat, in_lon);
  __CPROVER_assert(vf_exc == 0 && FLD(unsigned, _num) == OLD(unsigned, _num) + 1, "AddPoint increments the vertex count");
  __CPROVER_assert(sameb(FLD(double, _lat1), in_lat) && sameb(FLD(double, _lon1), in_lon), "AddPoint makes the new vertex the current point");
  if (OLD(unsigned, _num) == 0) {
    __CPROVER_assert(sameb(FLD(double, _lat0), in_lat) && sameb(FLD(double, _lon0), in_lon) && gi_calls == 0, "the first vertex becomes the start point, no edge is added");
    __CPROVER_assert(FLD(int, _crossings) == OLD(int, _crossings) && sameb(FLD(double, _areasum), OLD(double, _areasum)), "the first vertex adds no area and no crossing");
  } else {
    __CPROVER_assert(sameb(FLD(double, _lat0), OLD(double, _lat0)) && sameb(FLD(double, _lon0), OLD(double, _lon0)), "the start point is kept");
    __CPROVER_assert(gi_calls == 1 && sameb(gi_args[0], OLD(double, _lat1)) && sameb(gi_args[1], OLD(double, _lon1)) && sameb(gi_args[2], in_lat) && sameb(gi_args[3], in_lon), "the edge runs from the previous vertex to the new one");
    if (OLD(unsigned char, _polyline) & 1)
      __CPROVER_assert(FLD(int, _crossings) == OLD(int, _crossings) && sameb(FLD(double, _areasum), OLD(double, _areasum)) && sameb(*(double*)(pp + OFF(_areasum) + 8), *(double*)(op + OFF(_areasum) + 8)), "a polyline never touches area or crossings");
    else {
      int t = (int)F__ZN13GeographicLib12PolygonAreaTINS_8GeodesicEE7transitEdd(OLD(double, _lon1), in_lon);
      __CPROVER_assert(FLD(int, _crossings) == OLD(int, _crossings) + t, "crossings advance by transit(previous longitude, new longitude)");
    }
  }
  __CPROVER_assert(sameb(FLD(double, _area0), OLD(double, _area0)) && FLD(unsigned, _mask) == OLD(unsigned, _mask) && FLD(unsigned char, _polyline) == OLD(unsigned char, _polyline), "configuration members unchanged");
  VF_WITNESS("end of harness_addpoint");
}

void harness_addedge(void) {
  in_p = nondet_poly(); char* pp = (char*)&in_p;
  IN(in_lat, nondet_double()); IN(in_lon, nondet_double());      /* azi, s */
  VT_class_GeographicLib__PolygonAreaT old = in_p; char* op = (char*)&old;
  __CPROVER_assume(FLD(unsigned, _num) < 1000000u && FLD(int, _crossings) > -1000000 && FLD(int, _crossings) < 1000000 && FLD(unsigned char, _polyline) <= 1);
  gi_calls = gd_calls = 0; vf_exc = 0;
  F__ZN13GeographicLib12PolygonAreaTINS_8GeodesicEE7AddEdgeEdd(pp, in_lat, in_lon);
  if (OLD(unsigned, _num) == 0) {
    __CPROVER_assert(gd_calls == 0 && FLD(unsigned, _num) == 0 && FLD(int, _crossings) == OLD(int, _crossings) && sameb(FLD(double, _lat1), OLD(double, _lat1)) && sameb(FLD(double, _lon1), OLD(double, _lon1)), "AddEdge without a start point does nothing");
  } else {
    __CPROVER_assert(gd_calls == 1 && FLD(unsigned, _num) == OLD(unsigned, _num) + 1 && sameb(FLD(double, _lat1), gd_lat) && sameb(FLD(double, _lon1), gd_lon), "AddEdge moves the current point to the end of the edge");
    if (OLD(unsigned char, _polyline) & 1)
      __CPROVER_assert(FLD(int, _crossings) == OLD(int, _crossings) && sameb(FLD(double, _areasum), OLD(double, _areasum)), "a polyline never touches area or crossings");
    else {
      int t = (int)F__ZN13GeographicLib12PolygonAreaTINS_8GeodesicEE13transitdirectEdd(OLD(double, _lon1), gd_lon);
      __CPROVER_assert(FLD(int, _crossings) == OLD(int, _crossings) + t, "crossings advance by transitdirect(previous longitude, unrolled end longitude)");
    }
  }
  VF_WITNESS("end of harness_addedge");
}

/* the tentative queries and Compute leave the polygon unchanged */
void harness_const(void) {
  in_p = nondet_poly(); char* pp = (char*)&in_p;
  IN(in_lat, nondet_double()); IN(in_lon, nondet_double()); IN(in_rev, nondet_int() & 1); IN(in_sign, nondet_int() & 1);
  VT_class_GeographicLib__PolygonAreaT old = in_p; char* op = (char*)&old;
  __CPROVER_assume(FLD(unsigned char, _polyline) <= 1);
  double per = 1.5, area = 2.5; vf_exc = 0;
#if WHICH == 0
  F__ZNK13GeographicLib12PolygonAreaTINS_8GeodesicEE9TestPointEddbbRdS3_(pp, in_lat, in_lon, (uint8_t)in_rev, (uint8_t)in_sign, (char*)&per, (char*)&area);
#else
  F__ZNK13GeographicLib12PolygonAreaTINS_8GeodesicEE7ComputeEbbRdS3_(pp, (uint8_t)in_rev, (uint8_t)in_sign, (char*)&per, (char*)&area);
#endif
  __CPROVER_assert(vf_exc == 0, "no exception");
  __CPROVER_assert(FLD(unsigned, _num) == OLD(unsigned, _num) && FLD(int, _crossings) == OLD(int, _crossings) && sameb(FLD(double, _lat0), OLD(double, _lat0)) && sameb(FLD(double, _lon0), OLD(double, _lon0))
                   && sameb(FLD(double, _lat1), OLD(double, _lat1)) && sameb(FLD(double, _lon1), OLD(double, _lon1)), "vertex count, crossings, start and current point unchanged");
  __CPROVER_assert(sameb(FLD(double, _areasum), OLD(double, _areasum)) && sameb(*(double*)(pp + OFF(_areasum) + 8), *(double*)(op + OFF(_areasum) + 8))
                   && sameb(FLD(double, _perimetersum), OLD(double, _perimetersum)) && sameb(*(double*)(pp + OFF(_perimetersum) + 8), *(double*)(op + OFF(_perimetersum) + 8)), "both accumulators unchanged (both words)");
  if ((OLD(unsigned char, _polyline) & 1)) __CPROVER_assert(sameb(area, 2.5), "a polyline reports only the perimeter (area argument untouched)");
  VF_WITNESS("end of harness_const");
}
#endif
