/* C05 harnesses (E1): MGRS::UTMRow against the projection-derived block/band table (oracle 4), MGRS::CheckCoords, MGRS::Reverse parser */
#if defined(H_CHECKCOORDS)
#define VF_OPAQUE_MULDIV 1
#include "fp_P.h"
#elif defined(H_REVERSE)
#include "fp_N.h"
#else
#include "fp_P.h"
#endif
#include "cxx.c"
double F__ZN13GeographicLib4Math3NaNIdEET_v(void) { return VF_NAN; }
uint32_t F__ZN13GeographicLib4Math6digitsEv(void) { return 53; }
#include "oracle_utmrow.h"     /* generated at check time: static const signed char exp_utmrow[20][8][20] (true row or 100) */
#ifdef H_CHECKCOORDS
/* division-floor lemma (trusted, see DESIGN.md): for T = 100000 and |x| < 2^30 T, floor(fl(x/T)) = floor(x/T); the quotient is an
   arbitrary double in [k, k+1) where k T <= x < (k+1) T */
long in_kx, in_ky; int ndiv;
double vf_muldiv(int site, int isdiv, double a, double b) {
  if (isnan(a) || isnan(b)) return VF_NAN;
  if (!(isdiv && b == 100000.0)) { __CPROVER_assert(0, "unexpected multiplication/division in CheckCoords"); return nondet_double(); }
  long k = nondet_long(); __CPROVER_assume(k > -(1L << 30) && k < (1L << 30));
  __CPROVER_assume(a >= (double)(k * 100000L) && a < (double)((k + 1) * 100000L));
  double r = nondet_double(); __CPROVER_assume(r >= (double)k && r < (double)(k + 1));
  if (ndiv == 0) in_kx = k; else in_ky = k;
  ndiv++; return r;
}
#endif
#ifdef H_REVERSE
/* assume-guarantee: inside the parser, UTMRow is replaced by the table that obligation Q1 proves it equal to (for all in-range arguments) */
uint32_t F__ZN13GeographicLib4MGRS6UTMRowEiii(uint32_t iband, uint32_t icol, uint32_t irow) {
  int b = (int)iband, c = (int)icol, r = (int)irow;
  __CPROVER_assert(b >= -10 && b < 10 && c >= 0 && c < 8 && r >= 0 && r < 20, "UTMRow is called with in-range arguments");
  return (uint32_t)(int)exp_utmrow[b + 10][c][r];
}
#endif
#include "gen.c"
static int sameb(double a, double b) { return vf_d2bits(a) == vf_d2bits(b); }

int in_iband, in_icol, in_irow;
void harness_utmrow(void) {
  IN(in_iband, nondet_int()); IN(in_icol, nondet_int()); IN(in_irow, nondet_int());
  __CPROVER_assume(in_iband >= -10 && in_iband < 10 && in_icol >= 0 && in_icol < 8 && in_irow >= 0 && in_irow < 20);
  int r = (int)F__ZN13GeographicLib4MGRS6UTMRowEiii((uint32_t)in_iband, (uint32_t)in_icol, (uint32_t)in_irow);
  __CPROVER_assert(r == exp_utmrow[in_iband + 10][in_icol][in_irow], "UTMRow returns the row (periodic index irow) whose 100 km block intersects the latitude band, and 100 when no such block exists");
  VF_WITNESS("end of harness_utmrow");
}

#ifdef H_CHECKCOORDS
int in_utmp, in_northp; double in_x, in_y;
void harness_checkcoords(void) {
  IN(in_utmp, nondet_int() & 1); IN(in_northp, nondet_int() & 1); IN(in_x, nondet_double()); IN(in_y, nondet_double());
  __CPROVER_assume(!isnan(in_x) && !isnan(in_y) && in_x > -1e13 && in_x < 1e13 && in_y > -1e13 && in_y < 1e13);
  unsigned char np = (unsigned char)in_northp; double x = in_x, y = in_y;
  vf_exc = 0; ndiv = 0;
  F__ZN13GeographicLib4MGRS11CheckCoordsEbRbRdS2_((uint8_t)in_utmp, (char*)&np, (char*)&x, (char*)&y);
#ifdef VF_REPLAY
  in_kx = (long)floor(in_x / 100000.0); in_ky = (long)floor(in_y / 100000.0);
#endif
  static const int mine[4] = {8, 13, 1, 1}, maxe[4] = {32, 27, 9, 9}, minn[4] = {8, 13, 10, -90}, maxn[4] = {32, 27, 195, 95};
  int ind = (in_utmp ? 2 : 0) + (in_northp ? 1 : 0);
  const double eps = 0x1p-28;
  int xok = (in_kx >= mine[ind] && in_kx < maxe[ind]), xedge = (in_x == maxe[ind] * 100000.0);
  int yok = (in_ky >= minn[ind] && in_ky < maxn[ind]), yedge = (in_y == maxn[ind] * 100000.0);
  if (!((xok || xedge) && (yok || yedge))) {
    __CPROVER_assert(vf_exc == 1, "coordinates outside the half-open MGRS ranges (closed upper edge excepted) are rejected with GeographicErr");
    /* (CheckCoords is a private helper working on Forward's by-value copies: no frame obligation here) */
    VF_WITNESS("checkcoords reject"); return;
  }
  __CPROVER_assert(vf_exc == 0, "coordinates inside the ranges are accepted");
  __CPROVER_assert(sameb(x, xedge ? in_x - eps : in_x), "an easting on the closed upper edge is moved down by eps, other eastings are unchanged");
  double ey = yedge ? in_y - eps : in_y; int enp = in_northp;
  if (in_utmp) {
    if (in_northp && in_ky < 0) { enp = 0; ey = ey + 10000000.0; }
    else if (!in_northp && in_ky >= 100) { if (in_y == 10000000.0) ey = ey - eps; else { enp = 1; ey = ey - 10000000.0; } }
  }
  __CPROVER_assert(np == enp, "UTM hemisphere is folded to the side of the equator the northing lies on (equator stays S when given as S)");
  __CPROVER_assert(sameb(y, ey), "northing: eps nudge on the closed upper edge / equator, +-10000 km exactly when the hemisphere is folded");
  VF_WITNESS("end of harness_checkcoords");
}
#endif

#ifdef H_REVERSE
#ifndef SLEN
#define SLEN 5
#endif
char in_s[SLEN + 1]; int in_zone0, in_prec0, in_centerp; unsigned char in_np0; double in_x0, in_y0;
static int up(int c) { return (c >= 'a' && c <= 'z') ? c - 32 : c; }
static int idx(const char* tab, int c) { c = up(c); if (c == 0) return -1; for (int i = 0; i < 30 && tab[i]; i++) if (tab[i] == c) return i; return -1; }
static int isdig(int c) { return c >= '0' && c <= '9'; }
void harness_reverse(void) {
  vf_string strobj; char* str = (char*)&strobj;
  for (int i = 0; i < SLEN; i++) IN(in_s[i], nondet_char());
  in_s[SLEN] = 0; S_P(str) = S_BUF(str); vf_str_init(str, in_s, SLEN);
  IN(in_zone0, nondet_int()); IN(in_np0, nondet_uchar() & 1); IN(in_x0, nondet_double()); IN(in_y0, nondet_double()); IN(in_prec0, nondet_int()); IN(in_centerp, nondet_int() & 1);
  int zone = in_zone0, prec = in_prec0; unsigned char np = in_np0; double x = in_x0, y = in_y0;
  vf_exc = 0;
  F__ZN13GeographicLib4MGRS7ReverseERKNSt7__cxx1112basic_stringIcSt11char_traitsIcESaIcEEERiRbRdSB_S9_b(str, (char*)&zone, (char*)&np, (char*)&x, (char*)&y, (char*)&prec, (uint8_t)in_centerp);
  if (SLEN >= 3 && up(in_s[0]) == 'I' && up(in_s[1]) == 'N' && up(in_s[2]) == 'V') {
    __CPROVER_assert(vf_exc == 0 && zone == -4 && np == 0 && isnan(x) && isnan(y) && prec == -2, "MGRS INV... decodes to the INVALID zone, NaN, prec -2"); VF_WITNESS("mgrs inv"); return; }
  /* reference grammar */
  int p = 0; while (p < SLEN && isdig(in_s[p])) p++;
  int ok = 1, z1 = 0, rprec = 0, rnp = 0;
  if (p > 2) ok = 0;
  else { for (int i = 0; i < p; i++) z1 = 10 * z1 + (in_s[i] - '0'); if (p > 0 && !(z1 >= 1 && z1 <= 60)) ok = 0; }
  if (ok && SLEN - p < 1) ok = 0;
  if (ok) {
    int utmp = z1 != 0;
    int ib = idx(utmp ? "CDEFGHJKLMNPQRSTUVWX" : "ABYZ", in_s[p]);
    if (ib < 0) ok = 0;
    else {
      rnp = ib >= (utmp ? 10 : 2);
      int rest = SLEN - p - 1;
      if (rest == 0) rprec = -1;
      else if (rest < 2) ok = 0;
      else {
        static const char* const ucols[3] = {"ABCDEFGH", "JKLMNPQR", "STUVWXYZ"};
        static const char* const pcols[4] = {"JKLPQRSTUXYZ", "ABCFGHJKLPQR", "RSTUXYZ", "ABCFGHJ"};
        static const char* const prows[2] = {"ABCDEFGHJKLMNPQRSTUVWXYZ", "ABCDEFGHJKLMNP"};
        int ic = idx(utmp ? ucols[(z1 - 1) % 3] : pcols[ib], in_s[p + 1]);
        int ir = idx(utmp ? "ABCDEFGHJKLMNPQRSTUV" : prows[rnp], in_s[p + 2]);
        if (ic < 0 || ir < 0) ok = 0;
        else {
          if (utmp) { if ((z1 - 1) & 1) ir = (ir + 15) % 20; if (exp_utmrow[ib][ic][ir] == 100) ok = 0; }   /* block must intersect the band */
          int nd = rest - 2;
          for (int i = 0; i < nd && i < SLEN; i++) if (!isdig(in_s[p + 3 + i])) ok = 0;
          if (nd % 2 || nd / 2 > 11) ok = 0;
          rprec = nd / 2;
        }
      }
    }
  }
  if (!ok) {
    __CPROVER_assert(vf_exc == 1, "malformed MGRS string rejected with GeographicErr");
    __CPROVER_assert(zone == in_zone0 && np == in_np0 && sameb(x, in_x0) && sameb(y, in_y0) && prec == in_prec0, "MGRS::Reverse leaves its outputs untouched on throw");
    VF_WITNESS("mgrs reject"); return;
  }
  __CPROVER_assert(vf_exc == 0 && zone == z1 && np == rnp && prec == rprec, "well-formed MGRS string accepted with its zone, hemisphere and precision");
  VF_WITNESS("mgrs accept");
}
#endif
