#!/usr/bin/env python3
"""C15 — auxiliary latitudes (series tables, Clenshaw), E2"""
import z3
from fractions import Fraction
from vfw.run import Ob
from vfw import series, rsym, poly
from harness import common as H
from harness import polyid

W = 'w_AuxLatitude'
FILL = '@_ZNK13GeographicLib11AuxLatitude9fillcoeffEiii'
CLEN = '@_ZN13GeographicLib11AuxLatitude8ClenshawEbddPKdi'
AUX = ['phi', 'beta', 'theta', 'mu', 'chi', 'xi']
ASSUMPTIONS = [
    'EllipticFunction symmetry obligations: the Carlson integrals RF, RD, RJ are opaque (uninterpreted functions of their arguments); environment fact assumed about their values: on the first quadrant the incomplete integral before the final sign is applied lies in (0, complete] (positive integrands); sn in (0,1], dn > 0; the values of the integrals themselves are outside the claim',
    '[REAL] obligations: exact real meaning of the floating-point operations; rounding/NaN/overflow outside the claim',
    'first-principles oracle (vfw/series.py) for the 12 conversions among geographic, parametric, geocentric and rectifying latitude: closed forms tan(beta)=(1-f)tan(phi), tan(theta)=(1-f)^2 tan(phi), the meridian-arc integral and its reversion, and series composition',
    'the conversions involving the conformal and authalic latitudes are compared with the repository\'s order-8 tables (independent second copy), not with first principles',
    'accuracy in tan, monotonicity, the exact (non-series) Newton/elliptic paths, Ellipsoid and EllipticFunction numerics are outside this claim (DESIGN.md §4)',
]

def prepare(ctx):
    H.ir_module(ctx, W); H.ir_module(ctx, W, defines=('GEOGRAPHICLIB_AUXLATITUDE_ORDER=8',)); H.native(ctx, W); H.ir_module(ctx, WE); H.native(ctx, WE)

def coeff_terms(m, nsym, auxin, auxout, L):
    offs = H.offsets(m, 'AuxLatitude'); ex = rsym.Exec(m)
    k = 6 * auxout + auxin
    def mk(ex, mem):
        n2 = nsym * nsym
        return [ex.new_obj(mem, 'aux', {offs['_n']: nsym, offs['_n2']: n2}), auxin, auxout, k]
    p = ex.run_all(FILL, mk)
    assert len(p) == 1
    cells = p[0].mem['aux']
    return [cells[offs['_c'] + 8 * (L * k + l)] for l in range(L)]

def first_principles(N):
    base = series.aux_series(N)   # (out,in) for phi,beta,theta,mu pairs derivable directly
    res = dict(base)
    def comp(a, b, c):
        # c from a = (b from a) then (c from b)
        res[(c, a)] = series.compose(res[(b, a)], res[(c, b)], 1, N)
    comp('phi', 'beta', 'mu'); comp('mu', 'beta', 'phi'); comp('theta', 'beta', 'mu'); comp('mu', 'beta', 'theta')
    return res

def ob_tables_fp(ctx):
    N = 6; m = H.ir_module(ctx, W); n = z3.Real('n')
    fp = first_principles(N)
    items = []; specs = {}; specq = {}
    for (o, i), C in sorted(fp.items()):
        ao, ai = AUX.index(o), AUX.index(i)
        code = coeff_terms(m, n, ai, ao, N)
        for l in range(N):
            lab = ao * 1000 + ai * 100 + l
            items.append((lab, code[l])); specq[lab] = {k: v for k, v in C[l + 1].items() if sum(k) <= N}
            specs[lab] = series.mono_poly_z3(specq[lab], [n])
    return _check(ctx, 'fillcoeff(first principles)', items, specs, specq, n)

def _check(ctx, tag, items, specs, specq, n):
    # native: vf_auxcoeff(n, auxin, auxout, c) — label encodes (out, in, l)
    lib = H.native(ctx, W)
    import ctypes
    res = None
    # group by (out,in): polyid.native_call is declarative per label; use out_offset trick by running one group at a time
    groups = {}
    for lab, t in items: groups.setdefault(lab // 100, []).append((lab, t))
    tot = {'queries': 0, 'nontrivial': 0, 'solver_s': 0.0, 'validation': {'compared': 0, 'mismatches': 0}}
    for g, its in sorted(groups.items()):
        ao, ai = g // 10, g % 10
        nat = {'wrapper': W, 'fn': 'vf_auxcoeff', 'sig': ['d', 'i:%d' % ai, 'i:%d' % ao, 'O8'], 'result': 'out', 'out_offset': -(g * 100)}
        r = polyid.check(ctx, '%s C[%s,%s]' % (tag, AUX[ao], AUX[ai]), its, specs, [n], [n > -1, n < 1], nat, specq=specq,
                         functions=['GeographicLib::AuxLatitude::fillcoeff', 'GeographicLib::Math::polyval'])
        for k in ('queries', 'nontrivial', 'solver_s'): tot[k] += r.get(k, 0)
        tot['validation']['compared'] += r['validation']['compared']
        if r['verdict'] != 'proved': r.update({k: tot[k] for k in ('queries', 'nontrivial')}); return r
        res = r
    res.update(tot); res['solver_s'] = round(tot['solver_s'], 4)
    return res

def ob_tables_o8(ctx):
    N = 6; m6 = H.ir_module(ctx, W); m8 = H.ir_module(ctx, W, defines=('GEOGRAPHICLIB_AUXLATITUDE_ORDER=8',)); n = z3.Real('n')
    items = []; specs = {}; specq = {}
    for ao in range(6):
        for ai in range(6):
            if ao == ai: continue
            code = coeff_terms(m6, n, ai, ao, 6)
            ref = coeff_terms(m8, poly.Poly.var(1, 0), ai, ao, 8)
            for l in range(N):
                lab = ao * 1000 + ai * 100 + l
                items.append((lab, code[l])); specq[lab] = ref[l].trunc(N).coeffs(); specs[lab] = series.mono_poly_z3(specq[lab], [n])
    return _check(ctx, 'fillcoeff(order-8 oracle)', items, specs, specq, n)

def ob_clenshaw(ctx, sinp, K):
    m = H.ir_module(ctx, W); s, c = z3.Real('s'), z3.Real('c'); co = [z3.Real('c%d' % i) for i in range(K)]
    items = []; specs = {}
    for k in range(0, K + 1):
        ex = rsym.Exec(m)
        p = ex.run_all(CLEN, lambda ex, mem: [int(sinp), s, c, ex.new_obj(mem, 'co', {8 * i: co[i] for i in range(K)}), k])
        assert len(p) == 1
        items.append((k, p[0].ret))
        S = [rsym.RV(0), s]; C = [rsym.RV(1), c]
        for j in range(2, 2 * k + 3): S.append(S[j - 1] * c + C[j - 1] * s); C.append(C[j - 1] * c - S[j - 1] * s)
        specs[k] = sum(((co[i] * (S[2 * i + 2] if sinp else C[2 * i + 2])) for i in range(k)), rsym.RV(0))
    vars_ = [s, c] + co
    nat = {'wrapper': W, 'fn': 'vf_auxclenshaw', 'sig': ['i:%d' % int(sinp), 'd', 'd', 'A%d' % K, 'I'], 'result': 'ret'}
    def specval(pt):
        sub = [(v, rsym.RV(Fraction(x))) for v, x in zip(vars_, pt)]
        return {k: H.zeval(specs[k], vars_, pt) for k in range(0, K + 1)}
    def points(seed, k):
        import random
        rnd = random.Random(seed); pts = []
        for _ in range(k):
            t = Fraction(rnd.randint(-40, 40), 13); pts.append([2 * t / (1 + t * t), (1 - t * t) / (1 + t * t)] + [Fraction(rnd.randint(-50, 50), 17) for _ in co])
        return pts
    return polyid.check(ctx, 'AuxLatitude::Clenshaw(sinp=%d)' % sinp, items, specs, vars_, [s * s + c * c == 1], nat, specval=specval, points=points,
                        functions=['GeographicLib::AuxLatitude::Clenshaw'], bounds={'K': '0..%d' % K})

# ---- EllipticFunction: the incomplete integrals F, E, D, Pi, G, H obey the trig-like symmetries with their OWN complete integral
WE = 'w_Elliptic'
ELL = {'F': ('@_ZNK13GeographicLib16EllipticFunction1FEddd', '_kKc', 0), 'E': ('@_ZNK13GeographicLib16EllipticFunction1EEddd', '_eEc', 1), 'D': ('@_ZNK13GeographicLib16EllipticFunction1DEddd', '_dDc', 2),
       'Pi': ('@_ZNK13GeographicLib16EllipticFunction2PiEddd', '_pPic', 3), 'G': ('@_ZNK13GeographicLib16EllipticFunction1GEddd', '_gGc', 4), 'H': ('@_ZNK13GeographicLib16EllipticFunction1HEddd', '_hHc', 5)}
def ob_ell_sym(ctx, name):
    import ctypes
    m = H.ir_module(ctx, WE); o = H.offsets(m, 'EllipticFunction'); fn, comp, which = ELL[name]
    sn, cn, dn = z3.Real('sn'), z3.Real('cn'), z3.Real('dn')
    mem_syms = {off: z3.Real('Ell_%d' % off) for off in range(0, H.sizeof(m, 'EllipticFunction'), 8)}
    carl = {'@_ZN13GeographicLib16EllipticFunction2RFEddd': lambda ex, a, mem: ex.UF('RF', 3)(*a), '@_ZN13GeographicLib16EllipticFunction2RDEddd': lambda ex, a, mem: ex.UF('RD', 3)(*a),
            '@_ZN13GeographicLib16EllipticFunction2RJEdddd': lambda ex, a, mem: ex.UF('RJ', 4)(*a)}
    base = [sn > 0, sn <= 1, dn > 0]
    def cs(ex, a, mem):        # copysign(x, y): the usual model, with the magnitude argument recorded (the value before the final sign is applied)
        mem.setdefault('!raw', []).append(a[0]); return rsym._copysign(ex, a, mem)
    def run(s_, c_, assume):
        ex = rsym.Exec(m, opaque=carl, libm={'llvm.copysign.f64': cs}, assume=base + assume)
        ps = ex.run_all(fn, lambda ex, mem: [ex.new_obj(mem, 'obj', dict(mem_syms)), s_, c_, dn])
        return ps
    C = mem_syms[o[comp]]
    q = 0; ss = 0.0; bad = None; unk = []
    def prove(nm, claim, cond, pt):
        nonlocal q, ss, bad
        st, model, dt = rsym.prove(claim, cond, timeout_ms=60000); q += 1; ss += dt
        if st == 'sat' and bad is None: bad = {'kind': 'ell', 'fn': name, 'which': which, 'claim': nm, 'pt': pt}
        elif st == 'unknown': unk.append(nm)
    A = run(sn, cn, [cn > 0]); B = run(sn, -cn, [cn > 0]); Z = run(sn, rsym.RV(0), []); N = run(-sn, cn, [cn > 0])
    if not (A and B and Z and N): return {'verdict': 'inconclusive', 'detail': 'no path'}
    notbase = lambda p: [c for c in p.cond if not any(c is b_ for b_ in base)]
    for pa in A:
        # environment fact about the Carlson values: the integrands are positive, so 0 < X(phi) <= X(pi/2) for phi in (0, pi/2]
        raw = pa.mem.get('!raw') or [pa.ret]
        env = [raw[-1] > 0, raw[-1] <= C]
        for pb in B:
            prove('second quadrant: %s(sn, -cn, dn) = 2 %s() - %s(sn, cn, dn) with the complete integral of the SAME kind' % (name, name, name), pb.ret + pa.ret == 2 * C, base + [cn > 0] + env + notbase(pa) + notbase(pb), 'reflect')
        for pn in N:
            prove('odd in sn', pn.ret == -pa.ret, base + [cn > 0] + env + notbase(pa) + notbase(pn), 'odd')
    for pz in Z:
        prove('at the quarter period the value is the complete integral of the same kind', pz.ret == C, base + [C > 0] + notbase(pz), 'quarter')
    r = {'queries': q, 'nontrivial': q, 'solver_s': round(ss, 3), 'functions': ['GeographicLib::EllipticFunction::%s(sn, cn, dn)' % name], 'bounds': {'sn': '(0, 1]', 'cn': 'both signs and 0', 'object': 'arbitrary members, complete integrals > 0', 'environment': '0 < X(phi) <= X(pi/2) on the first quadrant (positive integrands)'}}
    if bad: r.update({'verdict': 'violated', 'detail': 'EllipticFunction::%s: "%s" refuted' % (name, bad['claim']), 'cex': bad})
    elif unk: r.update({'verdict': 'inconclusive', 'detail': 'unknown: %r' % unk})
    else: r['verdict'] = 'proved'
    return r

def replay_ell(cex):
    """real code: EllipticFunction(k2 = 0.3, alpha2 = 0.2) at phi = 0.7 and pi - 0.7"""
    import ctypes, math
    lib = H.native({}, WE); f = lib.vf_ell; f.restype = None; f.argtypes = [ctypes.c_int] + [ctypes.c_double] * 5 + [ctypes.c_void_p]
    k2, al2, phi = 0.3, 0.2, 0.7; s, c = math.sin(phi), math.cos(phi); d = math.sqrt(1 - k2 * s * s)
    a = (ctypes.c_double * 2)(); b = (ctypes.c_double * 2)(); z = (ctypes.c_double * 2)(); n = (ctypes.c_double * 2)()
    f(cex['which'], k2, al2, s, c, d, a); f(cex['which'], k2, al2, s, -c, d, b); f(cex['which'], k2, al2, 1.0, 0.0, math.sqrt(1 - k2), z); f(cex['which'], k2, al2, -s, c, d, n)
    dev = max(abs(a[0] + b[0] - 2 * a[1]), abs(z[0] - z[1]), abs(n[0] + a[0]))
    return dev > 1e-12, 'EllipticFunction(k2=0.3, alpha2=0.2)::%s: value at phi=0.7 %.15g, at pi-0.7 %.15g, complete %.15g, at pi/2 %.15g: reflection/quarter-period/oddness defect %.3g' % (cex['fn'], a[0], b[0], a[1], z[0], dev)

def obligations(ctx):
    K = 8 if ctx['tier'] == 'thorough' else 6
    ell = [Ob('Q3.Elliptic.%s.symmetry' % nm, (lambda ctx, nm=nm: ob_ell_sym(ctx, nm)), '[REAL]', 'E2 rsym+z3', 'EllipticFunction::%s(sn, cn, dn): reflection about the quarter period uses the complete integral of the same kind, odd in sn, equals the complete integral at cn = 0 (Carlson integrals opaque)' % nm, timeout=300) for nm in ELL]
    return ell + [
        Ob('Q1a.tables.first-principles', ob_tables_fp, '[REAL]', 'E2 rsym+z3', 'AuxLatitude::fillcoeff for the 12 conversions among phi, beta, theta, mu (72 polynomials in n) equals the first-principles series (closed forms, meridian-arc integral, reversion, composition)', timeout=600,
           bounds={'order': 6}),
        Ob('Q1b.tables.order8', ob_tables_o8, '[REAL]', 'E2 rsym+z3', 'AuxLatitude::fillcoeff for all 30 conversions (180 polynomials in n, incl. the table offsets ptrs[]) equals the truncation of the order-8 tables', timeout=600, bounds={'order': 6}),
        Ob('Q2.Clenshaw.sin', lambda ctx: ob_clenshaw(ctx, 1, K), '[REAL]', 'E2 rsym+z3', 'AuxLatitude::Clenshaw(sinp) equals sum c_k sin((2k+2) zeta) for symbolic coefficients under sin^2+cos^2=1', timeout=600, bounds={'K': K}),
        Ob('Q2.Clenshaw.cos', lambda ctx: ob_clenshaw(ctx, 0, K), '[REAL]', 'E2 rsym+z3', 'AuxLatitude::Clenshaw(!sinp) equals sum c_k cos((2k+2) zeta) for symbolic coefficients under sin^2+cos^2=1', timeout=600, bounds={'K': K}),
    ]

def replay(rp):
    if rp['cex'].get('kind') == 'ell': return replay_ell(rp['cex'])
    return polyid.replay(rp)

MANIFEST = {
    'engine': 'E2',
    'technique': 'symbolic execution of clang IR over z3 reals; polynomial identities in n against first-principles series (12 conversions) and the order-8 tables (30 conversions); Clenshaw sums as trigonometric identities',
    'text': 'Bounded solver verdicts on the real code of AuxLatitude.cpp: every entry of the 30 series tables (fillcoeff, incl. the ptrs[] offsets) is executed symbolically from the IR and z3 decides equality for all real n with '
            'an independent derivation (first principles for phi/beta/theta/mu; the order-8 build for chi/xi); the Clenshaw summation equals the explicit trigonometric sum for symbolic coefficients. '
            'EllipticFunction::F/E/D/Pi/G/H(sn,cn,dn): the trig-like symmetries (second quadrant via the complete integral of the same kind, oddness, quarter-period value) with the Carlson integrals opaque.',
    'note': 'Exact-real semantics, order 6 as compiled; the exact (Newton / elliptic-integral) conversion paths, Ellipsoid measures and the values of the Carlson integrals RF/RD/RJ/RG (EllipticFunction numerics) are not covered by these obligations (accuracy, convergence: DESIGN.md §4). '
            'Trusted: clang-14, vfw/irparse+rsym (validated each run against the native build), z3, vfw/series.py.',
}
