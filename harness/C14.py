#!/usr/bin/env python3
"""C14 — thread safety of shared const objects, reduced to a sequential solver obligation: empty shared write-set (E1)"""
import os
from vfw.run import Ob
from vfw import e1, build
from harness import common as H

HC = os.path.join(build.VERIF, 'harness', 'C14', 'c14.c')
ASSUMPTIONS = [
    'No interleaving is explored. Reduction: concurrent executions that only READ shared locations are data-race free and each equivalent to running alone; so the obligation is that a const member (or static function) performs no store into *this or into a writable static, '
    'except stores to function-local statics while the C++11 initialisation guard is held (thread-safe by the standard)',
    'FP mode N (values irrelevant); the shared object is an arbitrary image of the class; callees in other classes are opaque and assumed to write only their output arguments (each is the subject of its own entry)',
    'heap buffers reachable through pointer members of the shared object (vectors, shared_ptr) are not tracked by this write-set check; the C++ memory model itself, libstdc++ internals and objects documented as not thread-safe are outside the claim',
]
ENTRIES = {
    'AuxLatitude.Convert': ('w_C14a', ['@_ZNK13GeographicLib11AuxLatitude7ConvertEiiRKNS_8AuxAngleEb'], ['E_AUXCONVERT', 'SERIES_ONLY'], ['%"class.GeographicLib::AuxLatitude"'], 100,
                            'AuxLatitude::Convert(auxin, auxout, zeta, exact=false) const on a shared object (series mode, all 36 conversions), under the constructor invariant "all coefficient rows filled"'),
    'OSGB.computenorthoffset': ('w_C14b', ['@_ZN13GeographicLib4OSGB18computenorthoffsetEv'], ['E_OSGBNORTH'], [], 4,
                                'OSGB::computenorthoffset() (function-local static singleton and offset, first and second touch)'),
}

def prepare(ctx):
    for k, e in ENTRIES.items(): H.ir_module(ctx, e[0])
    H.ir_module(ctx, 'w_AuxLatitude')

def _cb(key, timeout=600):
    w, roots, defs, types, unwind, _ = ENTRIES[key]
    def run(ctx):
        m = H.ir_module(ctx, w)
        r = e1.cbmc_check(ctx, m, 'C14', roots, HC, function='harness', unwind=unwind, defines=defs + ['VF_MEM_MAX=96'] + (['C_OFF=%d' % H.offsets(H.ir_module(ctx, 'w_AuxLatitude'), 'AuxLatitude')['_c']] if 'E_AUXCONVERT' in defs else []), timeout=timeout, instrument_stores=True, export_types=types)
        if r.get('cex') is not None: r['cex']['entry'] = key
        return r
    run.cbmc_timeout = timeout
    return run

def ob_ctor_invariant(ctx):
    """E2: after either AuxLatitude constructor no cell of the coefficient cache _c holds the NaN sentinel (all 36 rows filled), so that the
    lazy fill inside the const members Convert / DConvert can never execute"""
    import z3
    from vfw import rsym
    m = H.ir_module(ctx, 'w_AuxLatitude'); o = H.offsets(m, 'AuxLatitude'); a, f = z3.Real('a'), z3.Real('f')
    ex = rsym.Exec(m, assume=[a > 0, f < 1, f > -1], path_cap=32)
    paths = ex.run_all('@_ZN13GeographicLib11AuxLatitudeC2Edd', lambda ex, mem: [ex.new_obj(mem, 'aux'), a, f])
    bad = None; n = 0
    for p in paths:
        cells = p.mem['aux']
        for i in range(216):
            off = o['_c'] + 8 * i
            v = cells.get(off)
            if v is None and any(lo <= off < hi for lo, hi in cells.get('!zero', [])): v = 0
            n += 1
            if v is None or isinstance(v, tuple):
                bad = {'entry': 'AuxLatitude.Convert', 'cell': i, 'row': i // 6, 'state': 'NaN sentinel' if isinstance(v, tuple) else 'unwritten'}; break
        if bad: break
    r = {'queries': ex.stats['feas_queries'] + 1, 'nontrivial': len(paths), 'solver_s': 0.0, 'functions': ['GeographicLib::AuxLatitude::AuxLatitude(double, double)', 'GeographicLib::AuxLatitude::fillcoeff'],
         'bounds': {'constructor paths': len(paths), 'cells': 216}, 'sample': {'cells_checked': n}}
    if bad: r.update({'verdict': 'violated', 'detail': 'after construction row %d of the coefficient cache still holds the %s: const Convert/DConvert will fill it lazily (a write to the shared object)' % (bad['row'], bad['state']), 'cex': bad})
    else: r['verdict'] = 'proved'
    return r

def obligations(ctx):
    return [Ob('Q1.AuxLatitude.ctor-invariant', ob_ctor_invariant, '[REAL] structural', 'E2 rsym+z3', 'AuxLatitude(a, f) fills every row of the coefficient cache (no NaN sentinel left), on every constructor path: the lazy fill in the const members is dead', timeout=300,
               bounds={'a': '> 0', 'f': '(-1, 1)'})] + [Ob('Q1.' + k, _cb(k), '[ABS] write-set', 'E1 cgen+cbmc', 'empty shared write-set: ' + e[5], timeout=630, bounds={'object': 'arbitrary image', 'arguments': 'arbitrary', 'loops': 'unwound to %d' % e[4]}) for k, e in ENTRIES.items()]

TSAN = {
    'AuxLatitude.Convert': ('  const AuxLatitude aux(6378137.0, 1/298.257223563);', 'AuxAngle z = AuxAngle::degrees(40.0 + t); volatile double r = aux.Convert(AuxLatitude::GEOGRAPHIC, AuxLatitude::CONFORMAL, z, false).degrees(); (void)r;'),
    'OSGB.computenorthoffset': ('', 'double x, y; OSGB::Forward(52.0 + t, -1.0, x, y); volatile double r = x; (void)r;'),
}
def replay(rp):
    """the write found by the solver is confirmed on the real code with ThreadSanitizer: 4 threads make the same const call on a shared object /
    static function once each; a report of accesses unordered by happens-before reproduces the race (no particular interleaving needed)"""
    cex = rp['cex']; key = cex.get('entry')
    if key not in TSAN: return None, 'no threads replay registered for entry %r' % key
    r = H.tsan_run(*TSAN[key])
    if r['race'] is None: return None, 'threads replay timed out'
    return bool(r['race']), ('ThreadSanitizer on the real code, 4 concurrent callers of %s: %s' % (key, r['report'])) if r['race'] else 'ThreadSanitizer reports no race for 4 concurrent callers of %s' % key

MANIFEST = {
    'engine': 'E1',
    'technique': 'bounded model checking (cbmc) of store-instrumented C generated from the clang IR: every store of a const member function is asserted to miss the shared object and the writable statics (guarded static initialisation excepted)',
    'text': 'Bounded solver verdicts on the real code, one per registered entry point: on every path and for every argument and object image, the const member / static function performs no store into the shared object or into a writable static outside a C++11 initialisation guard; '
            'by the read-only reduction this gives data-race freedom and sequential results for any number of concurrent callers of that entry point.',
    'note': 'Sequential reduction, no interleavings explored; registered entry points only (listed in the evidence); heap buffers behind pointer members are not tracked; cross-class callees opaque. Trusted: clang-14, vfw/cgen store instrumentation, cbmc 6.11, the C++11 guarantee for guarded statics.',
}
