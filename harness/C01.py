#!/usr/bin/env python3
"""C01 — direct geodesic: obligations decided by solver on the real code's IR (see DESIGN.md §3 C01)"""
import ctypes, time
from fractions import Fraction
import z3
from vfw.run import Ob
from vfw import series, rsym
from harness import common as H
from harness import polyid

W = 'w_Geodesic'
G = '_ZN13GeographicLib8Geodesic'; GK = '_ZNK13GeographicLib8Geodesic'
ASSUMPTIONS = [
    '[REAL] obligations: floating-point operations are given their exact real meaning; rounding, overflow, NaN and signed zeros are outside these claims',
    'accuracy figures (15 nm / 40 nm), series-vs-exact agreement and the elliptic-function path of GeodesicLineExact are outside the claim (DESIGN.md §4)',
    'oracle for A1,C1,C1p,A2,C2,A3,C3: first-principles expansion of the integrands of Karney (2013) eqs 7-8, 15-25 in exact rationals (vfw/series.py), order = the order compiled (6)',
]

def prepare(ctx):
    H.ir_module(ctx, W)
    H.native(ctx, W)

def _geod_obj(ex, mem, m, nsym, extra=None):
    offs = H.offsets(m, 'Geodesic')
    cells = {offs['_n']: nsym}
    cells.update(extra or {})
    return ex.new_obj(mem, 'g', cells)

def items_eps_table(ctx, fn, ncoef, first):
    """run static  fn(eps, c[])  -> [(label, term)]"""
    m = H.ir_module(ctx, W); eps = z3.Real('eps'); ex = rsym.Exec(m)
    paths = ex.run_all('@' + G + fn, lambda ex, mem: [eps, ex.new_obj(mem, 'out')])
    assert len(paths) == 1
    out = paths[0].mem['out']
    return [(l, out[8 * l]) for l in range(first, ncoef + 1)], [eps], ex

def ob_series_eps(ctx, which):
    """A1m1f/C1f/C1pf/A2m1f/C2f  ==  oracle"""
    N = 6
    m = H.ir_module(ctx, W); eps = z3.Real('eps'); lib = H.native(ctx, W)
    t1, C1 = series.geod_I1(N)
    if which in ('C1f', 'C1pf', 'C2f'):
        items, vars_, ex = items_eps_table(ctx, {'C1f': '3C1fEdPd', 'C1pf': '4C1pfEdPd', 'C2f': '3C2fEdPd'}[which], N, 1)
        if which == 'C1f': spec = C1
        elif which == 'C1pf': spec = series.revert(C1, 1, N)
        else: spec = series.geod_I2(N)[1]
        specs = {l: series.mono_poly_z3(spec[l], [eps], N) for l in range(1, N + 1)}
        specq = {l: spec[l] for l in range(1, N + 1)}
        nat = {'wrapper': W, 'fn': 'vf_' + which, 'sig': ['d', 'O8'], 'result': 'out'}
        return polyid.check(ctx, which, items, specs, vars_, [eps > -1, eps < 1], nat, specq=specq, maxdeg=N,
                            functions=['GeographicLib::Geodesic::' + which, 'GeographicLib::Math::polyval'])
    # A1m1f, A2m1f : scalar returns;  A1 = (1+t1)/(1-eps) ;  A2 = (1-eps)(1+t2)  with the documented form (t+eps)/(1-eps), (t-eps)/(1+eps)
    ex = rsym.Exec(m)
    paths = ex.run_all('@' + G + {'A1m1f': '5A1m1fEd', 'A2m1f': '5A2m1fEd'}[which], lambda ex, mem: [eps])
    assert len(paths) == 1
    code = paths[0].ret
    if which == 'A1m1f':
        t = t1.coeff('c', 0)
        # code truncates t at eps^N then forms (t+eps)/(1-eps)
        spec = (series.mono_poly_z3(t, [eps], N) + eps) / (1 - eps); specq = ('A1', t)
    else:
        t2, _ = series.geod_I2(N); t = t2.coeff('c', 0)
        # A2 = (1-eps)(1+t2) = (1 + t2')/(1+eps) with 1+t2' = (1-eps^2)(1+t2): the code expands t2' (truncated) and forms (t2'-eps)/(1+eps)
        one = series.TS.const(1, N, 1); e = series.TS.var(1, N, 0)
        tp = ((one - e * e) * (one + t2) - 1).coeff('c', 0)
        spec = (series.mono_poly_z3(tp, [eps], N) - eps) / (1 + eps); specq = ('A2', tp)
    nat = {'wrapper': W, 'fn': 'vf_' + which, 'sig': ['d'], 'result': 'ret'}
    def specval(pt):
        x = pt[0]; tv = series.mono_poly_eval(specq[1], [x], N)
        return {0: (tv + x) / (1 - x) if which == 'A1m1f' else (tv - x) / (1 + x)}
    return polyid.check(ctx, which, [(0, code)], {0: spec}, [eps], [eps > -1, eps < 1], nat, specval=specval,
                        functions=['GeographicLib::Geodesic::' + which, 'GeographicLib::Math::polyval'])

def ob_series_n_eps(ctx, which):
    """A3 / C3 (polynomials in n and eps) == first-principles I3 expansion truncated at total degree 5"""
    N = 5
    m = H.ir_module(ctx, W); eps = z3.Real('eps'); n = z3.Real('n'); lib = H.native(ctx, W)
    A3, C3 = series.geod_I3(N)
    ex = rsym.Exec(m)
    coeff_fn = {'A3f': '7A3coeffEv', 'C3f': '7C3coeffEv'}[which]
    p0 = ex.run_all('@' + G + coeff_fn, lambda ex, mem: [_geod_obj(ex, mem, m, n)])
    assert len(p0) == 1
    gcells = p0[0].mem['g']
    if which == 'A3f':
        p1 = ex.run_all('@' + GK + '3A3fEd', lambda ex, mem: [ex.new_obj(mem, 'g', gcells), eps])
        items = [(0, p1[0].ret)]; specq = {0: A3}
        nat = {'wrapper': W, 'fn': 'vf_A3f', 'sig': ['d', 'd'], 'result': 'ret'}
    else:
        p1 = ex.run_all('@' + GK + '3C3fEdPd', lambda ex, mem: [ex.new_obj(mem, 'g', gcells), eps, ex.new_obj(mem, 'out')])
        out = p1[0].mem['out']; items = [(l, out[8 * l]) for l in range(1, 6)]; specq = {l: C3[l] for l in range(1, 6)}
        nat = {'wrapper': W, 'fn': 'vf_C3f', 'sig': ['d', 'd', 'O8'], 'result': 'out'}
    specs = {l: series.mono_poly_z3(q, [n, eps], N) for l, q in specq.items()}
    return polyid.check(ctx, which, items, specs, [n, eps], [eps > -1, eps < 1, n > -1, n < 1], nat, specq=specq, maxdeg=N,
                        functions=['GeographicLib::Geodesic::' + coeff_fn[1:-2], 'GeographicLib::Geodesic::' + which, 'GeographicLib::Math::polyval'])

def clenshaw_spec(sinp, s, c, coef, n):
    """explicit sum  sinp ? sum_{i=1..n} coef[i] sin(2 i x) : sum_{i=0..n-1} coef[i] cos((2i+1) x)  as polynomial in s=sin x, c=cos x"""
    S = [rsym.RV(0), s]; C = [rsym.RV(1), c]
    for k in range(2, 2 * n + 2):
        S.append(S[k - 1] * c + C[k - 1] * s); C.append(C[k - 1] * c - S[k - 1] * s)
    if sinp: return sum((coef[i] * S[2 * i] for i in range(1, n + 1)), rsym.RV(0))
    return sum((coef[i] * C[2 * i + 1] for i in range(0, n)), rsym.RV(0))

def ob_clenshaw(ctx, sinp, nmax):
    m = H.ir_module(ctx, W); lib = H.native(ctx, W)
    s, c = z3.Real('s'), z3.Real('c')
    items = []; specs = {}; coefsyms = [z3.Real('c%d' % i) for i in range(nmax + 2)]
    for n in range(0, nmax + 1):
        ex = rsym.Exec(m)
        def mk(ex, mem):
            cells = {8 * i: coefsyms[i] for i in range(nmax + 2)}
            return [int(sinp), s, c, ex.new_obj(mem, 'coef', cells), n]
        paths = ex.run_all('@' + G + '12SinCosSeriesEbddPKdi', mk)
        assert len(paths) == 1
        items.append((n, paths[0].ret)); specs[n] = clenshaw_spec(sinp, s, c, coefsyms, n)
    vars_ = [s, c] + coefsyms
    nat = {'wrapper': W, 'fn': 'vf_SinCosSeries', 'sig': ['i:%d' % int(sinp), 'd', 'd', 'A%d' % (nmax + 2), 'I'], 'result': 'ret'}
    def specval(pt):
        sub = [(v, rsym.RV(Fraction(x))) for v, x in zip(vars_, pt)]
        r = {}
        for n in range(0, nmax + 1):
            t = z3.simplify(z3.substitute(specs[n], *sub)); r[n] = Fraction(t.numerator_as_long(), t.denominator_as_long())
        return r
    # validation/replay points must satisfy s^2+c^2=1: use rational points on the circle
    def points(seed, k):
        import random
        rnd = random.Random(seed); pts = []
        for _ in range(k):
            t = Fraction(rnd.randint(-40, 40), 13); sv = 2 * t / (1 + t * t); cv = (1 - t * t) / (1 + t * t)
            pts.append([sv, cv] + [Fraction(rnd.randint(-50, 50), 17) for _ in coefsyms])
        return pts
    return polyid.check(ctx, 'SinCosSeries(sinp=%d)' % sinp, items, specs, vars_, [s * s + c * c == 1], nat, specval=specval, points=points,
                        functions=['GeographicLib::Geodesic::SinCosSeries'], bounds={'n': '0..%d' % nmax})

def obligations(ctx):
    obs = []
    for w in ('A1m1f', 'C1f', 'C1pf', 'A2m1f', 'C2f'):
        obs.append(Ob('Q1.' + w, (lambda ctx, w=w: ob_series_eps(ctx, w)), '[REAL]', 'E2 rsym+z3',
                      'Geodesic::%s(eps) equals the first-principles series of its defining integral, as a polynomial/rational identity in eps' % w,
                      timeout=120, bounds={'order': 6, 'eps': '(-1,1), all reals decided; model restricted to the domain'}))
    for w in ('A3f', 'C3f'):
        obs.append(Ob('Q1.' + w, (lambda ctx, w=w: ob_series_n_eps(ctx, w)), '[REAL]', 'E2 rsym+z3',
                      'Geodesic::A3coeff/C3coeff + %s equal the first-principles expansion of I3 in (n, eps), total degree <= 5' % w,
                      timeout=180, bounds={'order': 6, 'n,eps': '(-1,1)'}))
    for sinp in (1, 0):
        obs.append(Ob('Q2.Clenshaw.sinp%d' % sinp, (lambda ctx, sinp=sinp: ob_clenshaw(ctx, sinp, 8 if ctx['tier'] == 'thorough' else 6)), '[REAL]', 'E2 rsym+z3',
                      'Geodesic::SinCosSeries equals the explicit trigonometric sum for symbolic coefficients under sin^2+cos^2=1', timeout=300,
                      bounds={'n': '0..6 quick / 0..8 thorough'}))
    return obs

def replay(rp):
    return polyid.replay(rp)

MANIFEST = {
    'engine': 'E2',
    'technique': 'symbolic execution of clang IR over z3 reals; polynomial/rational identities vs first-principles series (bounded: order 6, one path per kernel)',
    'text': 'Bounded solver verdicts on the real code: the series evaluators A1m1f, C1f, C1pf, A2m1f, C2f, A3coeff+A3f, C3coeff+C3f and the Clenshaw summation '
            'SinCosSeries are executed symbolically from the IR of the current tree and z3 decides, for all real eps (and n), equality with an independent '
            'first-principles expansion of the defining integrals (Karney 2013) / the explicit trigonometric sum. Any wrong coefficient, divisor, table offset or '
            'loop bound at the compiled order is refuted with a concrete (n, eps) that is replayed on a g++ build.',
    'note': 'Exact-real semantics of the floating-point operations (rounding/NaN/overflow outside the claim); order of the series as compiled (6); accuracy in nm, '
            'series-vs-exact agreement and GeodesicLineExact are not decided (DESIGN.md §4). Trusted: clang-14 front end, vfw/irparse+rsym (validated on every run '
            'against the native build at seeded rational points), z3 5.1, the oracle derivation in vfw/series.py.',
}
