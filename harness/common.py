#!/usr/bin/env python3
"""shared helpers for harness modules"""
import os, sys, ctypes, random, json, time
from fractions import Fraction
from vfw import build, irparse, rsym
import z3

_modcache = {}
def ir_module(ctx, wrapper, defines=(), opt='-O1', want=None, flags=()):
    """IR text is compiled once in prepare() (parent) and parsed lazily in the child"""
    key = 'ir:%s:%s:%s:%s' % (wrapper, ','.join(defines), opt, ' '.join(flags))
    if key not in ctx:
        ctx[key] = build.compile_ir(build.wrapper(wrapper), defines=defines, opt=opt, flags=flags)
    k2 = (key, id(want))
    if k2 not in _modcache:
        _modcache[k2] = irparse.parse_module(ctx[key], want=want)
    return _modcache[k2]

def offsets(m, cls):
    pre = '@vf_off_%s_' % cls
    return {k[len(pre):]: v[1].val for k, v in m.globals.items() if k.startswith(pre)}
def sizeof(m, cls): return m.globals['@vf_size_' + cls][1].val

def native(ctx, wrapper, defines=()):
    """ctypes handle on a g++ -O2 build of the wrapper unit linked against a g++ -O2 build of the whole
    current tree (this is 'the real code' for translator validation and replay)"""
    key = 'so:%s:%s' % (wrapper, ','.join(defines))
    if key not in ctx:
        lib = build.full_lib_so()
        ctx[key] = build.compile_so([build.wrapper(wrapper)], defines=defines,
                                    extra=[lib, '-Wl,-rpath,' + os.path.dirname(lib)])
    return ctypes.CDLL(ctx[key])

def dfun(lib, name, nargs_spec, ret=ctypes.c_double):
    f = getattr(lib, name); f.restype = ret; f.argtypes = nargs_spec; return f

def rat_points(seed, k, lo, hi, nvars, den=997):
    rnd = random.Random(seed)
    pts = []
    for _ in range(k):
        pts.append([Fraction(rnd.randint(int(lo * den), int(hi * den)), den) for _ in range(nvars)])
    return pts

def zeval(term, vars_, vals, ufs=None):
    """evaluate a z3 real term at rational values (UFs must not occur unless ufs gives python callables)"""
    sub = [(v, rsym.RV(Fraction(x))) for v, x in zip(vars_, vals)]
    t = z3.simplify(z3.substitute(term, *sub))
    if z3.is_rational_value(t): return Fraction(t.numerator_as_long(), t.denominator_as_long())
    if z3.is_algebraic_value(t):
        a = t.approx(30); return Fraction(a.numerator_as_long(), a.denominator_as_long())
    return None

def close(a, b, rel=1e-9, abs_=1e-12):
    a = float(a); b = float(b)
    return abs(a - b) <= abs_ + rel * max(abs(a), abs(b))

def model_dict(model, vars_):
    d = {}
    for v in vars_:
        x = rsym.model_value(model, v)
        d[str(v)] = str(x) if x is not None else None
    return d

def fr(x): return Fraction(x)

# ---------------------------------------------------------------- native replay programs (real code, sanitizers on)
import subprocess, hashlib, re as _re
def native_run(wrapper, body, sanitize=True, timeout=60, includes=''):
    """compile `#include <wrapper>; int main(){ body }` from the CURRENT tree with g++ (-fsanitize=undefined,address, no recovery)
    against a fresh g++ -O2 build of the library, run it, return {rc, out, err}.  Used to replay counterexamples:
    sanitizer abort = reproduced undefined behaviour; printed outputs are compared with the reference by the caller."""
    sc = build.scratch(); lib = build.full_lib_so()
    h = hashlib.md5((wrapper + body + str(sanitize)).encode()).hexdigest()[:10]
    src = os.path.join(sc, 'replay-%s.cpp' % h); exe = os.path.join(sc, 'replay-%s' % h)
    open(src, 'w').write('#include <cstdio>\n#include <cmath>\n#include <cstring>\n#include <string>\n%s\n#include "%s"\nint main() {\n%s\nreturn 0; }\n' % (includes, build.wrapper(wrapper), body))
    san = ['-fsanitize=undefined,address,float-cast-overflow', '-fno-sanitize-recover=all', '-fno-omit-frame-pointer'] if sanitize else []
    cmd = ['g++', '-std=gnu++17', '-O1', '-g', '-fno-access-control', '-DNDEBUG', '-w'] + san + build.incflags() + [src, lib, '-Wl,-rpath,' + os.path.dirname(lib), '-o', exe]
    r = subprocess.run(cmd, capture_output=True, text=True)
    if r.returncode: raise RuntimeError('replay program did not compile: ' + r.stderr[-2000:])
    env = dict(os.environ, ASAN_OPTIONS='detect_leaks=0:abort_on_error=0', UBSAN_OPTIONS='print_stacktrace=0')
    try:
        p = subprocess.run([exe], capture_output=True, text=True, timeout=timeout, env=env)
    except subprocess.TimeoutExpired:
        return {'rc': -999, 'out': '', 'err': 'timeout', 'vals': {}}
    vals = {}
    for ln in p.stdout.split('\n'):
        mo = _re.match(r'(\w+)=(.*)$', ln.strip())
        if mo: vals[mo.group(1)] = mo.group(2)
    return {'rc': p.returncode, 'out': p.stdout[-2000:], 'err': p.stderr[-1500:], 'vals': vals}

def tsan_run(setup, call, nthreads=4, timeout=120):
    """threads replay: NTHREADS threads execute `call` once each on the state built by `setup` (real library rebuilt with ThreadSanitizer);
    returns {race: bool, report: str}.  TSan reports accesses not ordered by happens-before, so no particular interleaving is needed."""
    sc = build.scratch(); lib = build.full_lib_so(sanitize='thread')
    h = hashlib.md5((setup + call).encode()).hexdigest()[:10]
    src = os.path.join(sc, 'tsan-%s.cpp' % h); exe = os.path.join(sc, 'tsan-%s' % h)
    open(src, 'w').write('#include <thread>\n#include <vector>\n#include <cstdio>\n#include <GeographicLib/Geodesic.hpp>\n#include <GeographicLib/Rhumb.hpp>\n#include <GeographicLib/AuxLatitude.hpp>\n#include <GeographicLib/OSGB.hpp>\n'
                         '#include <GeographicLib/GeodesicExact.hpp>\n#include <GeographicLib/MGRS.hpp>\n#include <GeographicLib/Geohash.hpp>\n#include <GeographicLib/UTMUPS.hpp>\nusing namespace GeographicLib;\n'
                         'int main() {\n%s\n  std::vector<std::thread> th;\n  for (int t = 0; t < %d; ++t) th.emplace_back([&, t]() { %s });\n  for (auto& x : th) x.join();\n  return 0; }\n' % (setup, nthreads, call))
    cmd = ['g++', '-std=gnu++17', '-O1', '-g', '-fsanitize=thread', '-pthread', '-DNDEBUG', '-w'] + build.incflags() + [src, lib, '-Wl,-rpath,' + os.path.dirname(lib), '-o', exe]
    r = subprocess.run(cmd, capture_output=True, text=True)
    if r.returncode: raise RuntimeError('tsan program did not compile: ' + r.stderr[-1500:])
    try:
        p = subprocess.run([exe], capture_output=True, text=True, timeout=timeout, env=dict(os.environ, TSAN_OPTIONS='halt_on_error=0 report_signal_unsafe=0'))
    except subprocess.TimeoutExpired:
        return {'race': None, 'report': 'timeout'}
    race = 'WARNING: ThreadSanitizer: data race' in p.stderr
    rep = ''
    if race:
        lines = p.stderr.split('\n'); i = next(k for k, l in enumerate(lines) if 'data race' in l)
        rep = ' | '.join(l.strip() for l in lines[i:i + 8] if l.strip())[:500]
    return {'race': race, 'report': rep}

def chex(x):
    """python float -> C++ expression with the exact value"""
    import math
    if isinstance(x, dict): x = float.fromhex(x['double_hex']) if 'double_hex' in x else float(x.get('float'))
    x = float(x)
    if x != x: return 'std::nan("")'
    if x == float('inf'): return 'INFINITY'
    if x == float('-inf'): return '(-INFINITY)'
    return x.hex()
def pyfloat(x):
    if isinstance(x, dict): return float.fromhex(x['double_hex']) if 'double_hex' in x else float(x.get('float'))
    return float(x)
def san_failed(r):
    return r['rc'] != 0 and ('runtime error' in r['err'] or 'AddressSanitizer' in r['err'])
def san_msg(r):
    for ln in r['err'].split('\n'):
        if 'runtime error' in ln or 'AddressSanitizer' in ln: return ln.strip()[:300]
    return r['err'][:300]
