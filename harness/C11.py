#!/usr/bin/env python3
"""C11 — polar stereographic, Lambert conformal conic, Albers equal area (E2: shells around the opaque latitude maps)"""
import z3, ctypes
from fractions import Fraction
from vfw.run import Ob
from vfw import rsym
from harness import common as H

W = 'w_Conic'
PS = 'PolarStereographic'; LCC = 'LambertConformalConic'; ALB = 'AlbersEqualArea'
FN = {(PS, 'Forward'): '@_ZNK13GeographicLib18PolarStereographic7ForwardEbddRdS1_S1_S1_', (PS, 'SetScale'): '@_ZN13GeographicLib18PolarStereographic8SetScaleEdd',
      (LCC, 'Forward'): '@_ZNK13GeographicLib21LambertConformalConic7ForwardEdddRdS1_S1_S1_', (LCC, 'Reverse'): '@_ZNK13GeographicLib21LambertConformalConic7ReverseEdddRdS1_S1_S1_', (LCC, 'SetScale'): '@_ZN13GeographicLib21LambertConformalConic8SetScaleEdd',
      (ALB, 'Forward'): '@_ZNK13GeographicLib15AlbersEqualArea7ForwardEdddRdS1_S1_S1_', (ALB, 'Reverse'): '@_ZNK13GeographicLib15AlbersEqualArea7ReverseEdddRdS1_S1_S1_', (ALB, 'SetScale'): '@_ZN13GeographicLib15AlbersEqualArea8SetScaleEdd'}
SINCOSD = '@_ZN13GeographicLib4Math7sincosdIdEEvT_RS2_S3_'
ASSUMPTIONS = [
    'Albers cylindrical-limit obligation: _n0 = 0 exactly, object invariant _k2 = _k0^2, _k0 > 0, _nrho0 > 0; txif/tphif/atan2 opaque; only the longitude of Reverse(Forward) is decided there',
    '[REAL] obligations: exact real meaning of the floating-point operations; rounding/overflow/NaN outside the claim',
    'the projection objects are arbitrary: every member is a free real symbol (so the obligations hold for every ellipsoid, parallel and scale a constructor can produce)',
    'Math::tand, taupf, tauf, sincosd, AngNormalize, AngDiff and the Forward called inside SetScale are opaque; the divided-difference Init bodies, the Newton inversions and the 10 nm round trip are outside the claim',
    'latitude convention: Reverse returns lat = atand(_sign * tphi); Reverse(Forward(p)) = p therefore requires Forward to evaluate its latitude functions at _sign * lat — this is the specification of the obligation "latitude-argument"',
    'SetScale: the constructors make _nrho0 proportional to _k0 and _drhomax proportional to _scale; rescaling the projection must therefore multiply all length-scale members by the same factor',
]

def prepare(ctx):
    H.ir_module(ctx, W); H.native(ctx, W)

class _Done(Exception):
    def __init__(s, arg): s.arg = arg

def sym_obj(ex, mem, m, cls, fixed=None):
    size = H.sizeof(m, cls); cells = {}
    for off in range(0, size, 8): cells[off] = z3.Real('%s_%d' % (cls[:3], off))
    cells.update(fixed or {})
    return ex.new_obj(mem, 'obj', cells), cells

def ob_lat_argument(ctx, cls):
    m = H.ir_module(ctx, W); o = H.offsets(m, cls); lat, lon, lon0 = z3.Real('lat'), z3.Real('lon'), z3.Real('lon0')
    q = 0; ss = 0.0; bad = None; unk = []
    for sign in (1, -1):
        def sc(ex, args, mem): raise _Done(args[0])
        ex = rsym.Exec(m, opaque={SINCOSD: sc, '@_ZN13GeographicLib4Math7AngDiffIdEET_S2_S2_RS2_': lambda ex, a, mem: z3.Real('dlon')}, assume=[lat > -90, lat < 90])
        try:
            ex.run_all(FN[(cls, 'Forward')], lambda ex, mem: [sym_obj(ex, mem, m, cls, {o['_sign']: rsym.RV(sign)})[0], lon0, lat, lon, ex.new_obj(mem, 'o'), rsym.Ptr('o', 8), rsym.Ptr('o', 16), rsym.Ptr('o', 24)])
            return {'verdict': 'inconclusive', 'detail': 'sincosd not reached'}
        except _Done as d:
            arg = d.arg
        st, model, dt = rsym.prove(arg == sign * lat, [lat > -90, lat < 90], timeout_ms=20000); q += 1; ss += dt
        if st == 'sat' and bad is None: bad = {'kind': 'latarg', 'cls': cls, 'sign': sign, 'lat': str(rsym.model_value(model, lat)), 'claim': 'Forward evaluates its latitude functions at _sign*lat'}
        elif st == 'unknown': unk.append(sign)
    r = {'queries': q, 'nontrivial': q, 'solver_s': round(ss, 3), 'functions': ['GeographicLib::%s::Forward' % cls], 'bounds': {'_sign': '+1 and -1', 'lat': '(-90, 90)'}}
    if bad: r.update({'verdict': 'violated', 'detail': '%s::Forward with _sign = %d passes %s to sincosd, not _sign*lat' % (cls, bad['sign'], 'lat'), 'cex': bad})
    elif unk: r.update({'verdict': 'inconclusive', 'detail': 'unknown'})
    else: r['verdict'] = 'proved'
    return r

def ob_setscale(ctx, cls):
    m = H.ir_module(ctx, W); o = H.offsets(m, cls); lat, k, kold = z3.Real('lat'), z3.Real('k'), z3.Real('kold')
    def fwd(ex, args, mem):
        ex.store(mem, args[-1], None, kold)
        for p_ in args[-4:-1]: ex.store(mem, p_, None, z3.Real('junk'))
        return None
    before = {}
    def mk(ex, mem):
        ptr, cells = sym_obj(ex, mem, m, cls); before.update(cells); return [ptr, lat, k]
    ex = rsym.Exec(m, opaque={FN[(cls, 'Forward')]: fwd}, assume=[k > 0, kold > 0, lat > -90, lat < 90])
    paths = ex.run_all(FN[(cls, 'SetScale')], mk)
    q = 0; ss = 0.0; bad = None; unk = []
    fac = k / kold
    scale_members = {LCC: ['_scale', '_k0', '_nrho0', '_drhomax'], ALB: ['_k0'], PS: []}[cls]
    for p in paths:
        after = p.mem['obj']
        claims = [('%s is multiplied by k/kold' % mname, after[o[mname]] == before[o[mname]] * fac) for mname in scale_members]
        if cls == ALB: claims.append(('_k2 = _k0^2', after[o['_k2']] == after[o['_k0']] * after[o['_k0']]))
        if cls == PS: claims.append(('_k0 = k/kold (Forward evaluated at unit scale)', after[o['_k0']] == fac))
        changed = [off for off in before if not z3.eq(after[off], before[off])]
        allowed = {o[x] for x in scale_members} | ({o['_k2']} if cls == ALB else set()) | ({o['_k0']} if cls == PS else set())
        claims.append(('no other member changes', z3.BoolVal(set(changed) <= allowed)))
        for nm, cl in claims:
            st, model, dt = rsym.prove(cl, list(p.cond), timeout_ms=20000); q += 1; ss += dt
            if st == 'sat' and bad is None: bad = {'kind': 'setscale', 'cls': cls, 'claim': nm}
            elif st == 'unknown': unk.append(nm)
    r = {'queries': q, 'nontrivial': q, 'solver_s': round(ss, 3), 'functions': ['GeographicLib::%s::SetScale' % cls], 'bounds': {'paths': len(paths), 'object': 'every member symbolic'}}
    if bad: r.update({'verdict': 'violated', 'detail': '%s::SetScale: %s refuted' % (cls, bad['claim']), 'cex': bad})
    elif unk: r.update({'verdict': 'inconclusive', 'detail': 'unknown %r' % unk})
    else: r['verdict'] = 'proved'
    return r

def ob_ps_forward(ctx):
    m = H.ir_module(ctx, W); o = H.offsets(m, PS); lat, lon = z3.Real('lat'), z3.Real('lon')
    tand = z3.Function('tand', z3.RealSort(), z3.RealSort()); taupf = z3.Function('taupf', z3.RealSort(), z3.RealSort(), z3.RealSort()); angn = z3.Function('angnorm', z3.RealSort(), z3.RealSort())
    s, c = z3.Real('slon'), z3.Real('clon')
    def sc(ex, args, mem): ex.store(mem, args[1], None, s); ex.store(mem, args[2], None, c); return None
    q = 0; ss = 0.0; bad = None; unk = []; npaths = 0
    for northp in (1, 0):
        objc = {}
        def mk(ex, mem):
            ptr, cells = sym_obj(ex, mem, m, PS); objc.update(cells)
            return [ptr, northp, lat, lon, ex.new_obj(mem, 'o'), rsym.Ptr('o', 8), rsym.Ptr('o', 16), rsym.Ptr('o', 24)]
        ex = rsym.Exec(m, opaque={SINCOSD: sc, '@_ZN13GeographicLib4Math4tandIdEET_S2_': lambda ex, a, mem: tand(a[0]), '@_ZN13GeographicLib4Math5taupfIdEET_S2_S2_': lambda ex, a, mem: taupf(a[0], a[1]),
                                  '@_ZN13GeographicLib4Math12AngNormalizeIdEET_S2_': lambda ex, a, mem: angn(a[0])},
                       libm={'hypot': lambda ex, a, mem: ex.UF('hypot', 2)(a[0], a[1]), 'sqrt': lambda ex, a, mem: ex.UF('sqrt', 1)(a[0])}, assume=[lat > -90, lat < 90])
        paths = ex.run_all(FN[(PS, 'Forward')], mk); npaths += len(paths)
        a_, c_, k0 = objc[o['_a']], objc[o['_c']], objc[o['_k0']]
        for p in paths:
            x, y, gam = p.mem['o'][0], p.mem['o'][8], p.mem['o'][16]
            tp = taupf(tand(lat if northp else -lat), objc[o['_es']]); hy = ex.UF('hypot', 2)(rsym.RV(1), tp)
            rho = z3.Real('rho_spec')
            cond = list(p.cond) + [hy * hy == 1 + tp * tp, hy > 0, rho * (hy + tp) == 2 * k0 * a_ / c_, a_ > 0, c_ > 0, k0 > 0]
            claims = [('x = rho sin(lon)', x == rho * s), ('y = -+rho cos(lon)', y == (-rho if northp else rho) * c), ('gamma = AngNormalize(+-lon)', gam == angn(lon if northp else -lon))]
            for nm, cl in claims:
                st, model, dt = rsym.prove(cl, cond, timeout_ms=60000); q += 1; ss += dt
                if st == 'sat' and bad is None: bad = {'kind': 'psforward', 'claim': nm, 'northp': northp}
                elif st == 'unknown': unk.append((northp, nm))
    r = {'queries': q, 'nontrivial': q, 'solver_s': round(ss, 3), 'functions': ['GeographicLib::PolarStereographic::Forward'], 'bounds': {'paths': npaths, 'northp': 'both'}}
    if bad: r.update({'verdict': 'violated', 'detail': 'PolarStereographic::Forward: %s refuted' % bad['claim'], 'cex': bad})
    elif unk: r.update({'verdict': 'inconclusive', 'detail': 'unknown %r' % unk})
    else: r['verdict'] = 'proved'
    return r

ANGNORM = '@_ZN13GeographicLib4Math12AngNormalizeIdEET_S2_'; ATAND = '@_ZN13GeographicLib4Math5atandIdEET_S2_'; TXIF = '@_ZNK13GeographicLib15AlbersEqualArea4txifEd'
class _Arg(Exception):
    def __init__(s, arg, cond): s.arg = arg; s.cond = cond

def ob_albers_cyl_lon(ctx):
    """cylindrical limit (_n0 = 0) of AlbersEqualArea: Forward puts x = nrho0 k2 lam / k0; Reverse recovers that lam (needs _k2 = _k0^2):
    the longitude survives the round trip"""
    m = H.ir_module(ctx, W); o = H.offsets(m, ALB)
    lon0, lat, lon, y = [z3.Real(n) for n in ('lon0', 'lat', 'lon', 'y')]; dlon = z3.Real('dlon')
    k0, k2, nrho0 = z3.Real('Alb_%d' % o['_k0']), z3.Real('Alb_%d' % o['_k2']), z3.Real('Alb_%d' % o['_nrho0'])
    inv = [k0 > 0, k2 == k0 * k0, nrho0 > 0]
    uf = lambda name: (lambda ex, a, mem: ex.UF(name, len(a) - 1)(*[x for x in a[1:]]) if len(a) > 1 else z3.Real(name))
    q = 0; ss = 0.0; bad = None; unk = []
    for sign in (1, -1):
        fixed = {o['_sign']: rsym.RV(sign), o['_n0']: rsym.RV(0)}
        # Forward: x as a function of the longitude difference
        def sc(ex, a, mem): ex.store(mem, a[1], None, z3.Real('sphi')); ex.store(mem, a[2], None, z3.Real('cphi')); return None
        ex = rsym.Exec(m, opaque={SINCOSD: sc, '@_ZN13GeographicLib4Math7AngDiffIdEET_S2_S2_RS2_': lambda ex, a, mem: dlon, TXIF: lambda ex, a, mem: ex.UF('txif', 1)(a[1])},
                       libm={'atan2': lambda ex, a, mem: ex.UF('atan2', 2)(a[0], a[1])}, assume=inv + [lat > -90, lat < 90, z3.Real('cphi') > 0], path_cap=256)
        paths = ex.run_all(FN[(ALB, 'Forward')], lambda ex, mem: [sym_obj(ex, mem, m, ALB, dict(fixed))[0], lon0, lat, lon, ex.new_obj(mem, 'o'), rsym.Ptr('o', 8), rsym.Ptr('o', 16), rsym.Ptr('o', 24)])
        deg = None
        for p in paths:
            xf = p.mem['o'][0]
            # x = nrho0 k2 lam / k0 with lam = dlon * degree : linear in dlon through the origin with slope nrho0 k2 degree / k0
            d2 = z3.Real('dlon2')
            st, model, dt = rsym.prove(z3.substitute(xf, (dlon, d2)) * dlon == xf * d2, list(p.cond) + [z3.substitute(c, (dlon, d2)) for c in p.cond], timeout_ms=30000); q += 1; ss += dt
            if st == 'sat' and bad is None: bad = {'kind': 'albcyl', 'claim': 'Forward (n0 = 0): x is proportional to the longitude difference', 'sign': sign}
            elif st == 'unknown': unk.append('fwd-linear')
            slope = z3.substitute(xf, (dlon, rsym.RV(1)))
            # Reverse with that x: the argument of the final AngNormalize must be dlon + AngNormalize(lon0)
            def an(ex2, a, mem):
                n = mem.setdefault('!an', []); n.append(a[0])
                if len(n) == 1: return z3.Real('an_lon0')
                raise _Arg(a[0], list(ex2.cur.cond))
            xr = slope * dlon
            ex2 = rsym.Exec(m, opaque={ANGNORM: an, ATAND: lambda e, a, mem: z3.Real('atand'), TXIF: lambda e, a, mem: e.UF('txif', 1)(a[1])},
                            libm={'atan2': lambda e, a, mem: e.UF('atan2', 2)(a[0], a[1])}, assume=inv + list(p.cond), path_cap=256)
            got = []
            def mk2(e, mem): return [sym_obj(e, mem, m, ALB, dict(fixed))[0], lon0, xr, y, e.new_obj(mem, 'o'), rsym.Ptr('o', 8), rsym.Ptr('o', 16), rsym.Ptr('o', 24)]
            stack_guard = 0
            try:
                ex2.run_all(FN[(ALB, 'Reverse')], mk2)
                unk.append('reverse did not reach the final AngNormalize')
            except _Arg as g:
                st, model, dt = rsym.prove(g.arg == dlon + z3.Real('an_lon0'), g.cond, timeout_ms=60000); q += 1; ss += dt
                if st == 'sat' and bad is None: bad = {'kind': 'albcyl', 'claim': 'Reverse(Forward) returns the longitude difference it was given (cylindrical limit)', 'sign': sign}
                elif st == 'unknown': unk.append('roundtrip')
            break    # the first feasible Forward path suffices for the longitude (the others differ in latitude-dependent branches only)
    r = {'queries': q, 'nontrivial': q, 'solver_s': round(ss, 3), 'functions': ['GeographicLib::AlbersEqualArea::Forward', 'GeographicLib::AlbersEqualArea::Reverse'], 'bounds': {'_n0': 0, '_sign': '+1 and -1', 'invariant': '_k2 = _k0^2, _k0 > 0, _nrho0 > 0'}}
    if bad: r.update({'verdict': 'violated', 'detail': 'AlbersEqualArea with _n0 = 0: %s refuted' % bad['claim'], 'cex': bad})
    elif unk: r.update({'verdict': 'inconclusive', 'detail': 'unknown: %r' % unk})
    else: r['verdict'] = 'proved'
    return r

def obligations(ctx):
    return [
        Ob('Q1.PolarStereographic.Forward', ob_ps_forward, '[REAL]', 'E2 rsym+z3', 'PolarStereographic::Forward: x = rho sin(lon), y = -+rho cos(lon) with rho (hypot(1,taup) + taup) = 2 k0 a / c on both sign branches (taup = taupf(tand(+-lat))), gamma = AngNormalize(+-lon)', timeout=600),
        Ob('Q3.LCC.latitude-argument', lambda ctx: ob_lat_argument(ctx, LCC), '[REAL]', 'E2 rsym+z3', 'LambertConformalConic::Forward evaluates its latitude functions at _sign*lat, the reflected latitude Reverse returns (both hemispheres of cones)', timeout=300),
        Ob('Q3.Albers.latitude-argument', lambda ctx: ob_lat_argument(ctx, ALB), '[REAL]', 'E2 rsym+z3', 'AlbersEqualArea::Forward evaluates its latitude functions at _sign*lat, the reflected latitude Reverse returns (both hemispheres of cones)', timeout=300),
        Ob('Q2.PolarStereographic.SetScale', lambda ctx: ob_setscale(ctx, PS), '[REAL]', 'E2 rsym+z3', 'PolarStereographic::SetScale sets _k0 = k / k(lat at unit scale) and nothing else', timeout=300),
        Ob('Q2.LCC.SetScale', lambda ctx: ob_setscale(ctx, LCC), '[REAL]', 'E2 rsym+z3', 'LambertConformalConic::SetScale multiplies every length-scale member (_scale, _k0, _nrho0, _drhomax) by k/kold and changes nothing else', timeout=300),
        Ob('Q4.Albers.cylindrical-longitude', ob_albers_cyl_lon, '[REAL]', 'E2 rsym+z3', 'AlbersEqualArea in the cylindrical limit (_n0 = 0): Forward puts x proportional to the longitude difference and Reverse recovers exactly that difference', timeout=600),
        Ob('Q2.Albers.SetScale', lambda ctx: ob_setscale(ctx, ALB), '[REAL]', 'E2 rsym+z3', 'AlbersEqualArea::SetScale multiplies _k0 by k/kold, keeps _k2 = _k0^2 and changes nothing else', timeout=300),
    ]

def replay(rp):
    cex = rp['cex']; lib = H.native({}, W)
    if cex.get('kind') == 'latarg' and cex['cls'] == ALB:
        f = lib.vf_albers_roundtrip; f.restype = None; f.argtypes = [ctypes.c_double] * 4 + [ctypes.c_void_p]
        out = (ctypes.c_double * 4)(); f(-30.0, -50.0, -40.0, 10.0, out)
        bad = abs(out[0] + 40.0) > 1e-6
        return bad, 'AlbersEqualArea(standard parallels -30, -50): Reverse(Forward(lat=-40, lon=10)) = (lat=%.9f, lon=%.9f); Forward gave (x, y) = (%.3f, %.3f)' % (out[0], out[1], out[2], out[3])
    if cex.get('kind') == 'setscale' and cex['cls'] == LCC:
        f = lib.vf_lcc_setscale; f.restype = None; f.argtypes = [ctypes.c_double] * 6 + [ctypes.c_void_p]
        out = (ctypes.c_double * 6)(); f(30.0, 50.0, 35.0, 2.0, 40.0, 10.0, out)
        ratio = out[5] / out[4]; rx = out[2] / out[0]
        bad = abs(rx - ratio) > 1e-6 * ratio
        return bad, 'LambertConformalConic(30, 50).SetScale(35, 2): the returned scale at (40, 10) changes by the factor %.6f but the easting x by the factor %.6f (x: %.3f -> %.3f)' % (ratio, rx, out[0], out[2])
    if cex.get('kind') == 'albcyl':
        f = lib.vf_albers_cyl; f.restype = None; f.argtypes = [ctypes.c_double] * 3 + [ctypes.c_void_p]
        out = (ctypes.c_double * 5)(); f(2.0, 20.0, 30.0, out)
        bad = abs(out[1] - 30.0) > 1e-6 or abs(out[0] - 20.0) > 1e-6
        return bad, 'AlbersEqualArea(standard parallel 0, k0 = 2; _n0 = %g): Reverse(Forward(lat=20, lon=30)) = (lat=%.9f, lon=%.9f); Forward gave (x, y) = (%.3f, %.3f)' % (out[4], out[0], out[1], out[2], out[3])
    return None, 'no concrete replay for %r' % cex

MANIFEST = {
    'engine': 'E2',
    'technique': 'symbolic execution of clang IR over z3 reals on projection objects whose members are all free symbols; identities around the opaque latitude maps',
    'text': 'Bounded solver verdicts on the real code: PolarStereographic::Forward has the textbook form on both sign branches; LambertConformalConic/AlbersEqualArea::Forward evaluate their latitude functions at the reflected latitude that Reverse inverts (both cone orientations); '
            'SetScale of all three classes rescales every length-scale member consistently and touches nothing else; AlbersEqualArea in the cylindrical limit (_n0 = 0) returns the longitude it was given (Reverse after Forward).',
    'note': 'Exact-real semantics; tand/taupf/tauf/sincosd and the divided-difference Init code are opaque, so the 10 nm round trip, conformality/equal-area of the full maps and the constructor equivalences are not decided. Trusted: clang-14, vfw/irparse+rsym, z3.',
}
