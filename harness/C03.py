#!/usr/bin/env python3
"""C03 — reduced length, geodesic scales, area: series table C4 (E2), Lengths formulas (E2)"""
import z3
from fractions import Fraction
from vfw.run import Ob
from vfw import series, rsym, poly
from harness import common as H
from harness import polyid

W = 'w_Geodesic'
G = '_ZN13GeographicLib8Geodesic'; GK = '_ZNK13GeographicLib8Geodesic'
ASSUMPTIONS = [
    '[REAL] obligations: exact real meaning of the floating-point operations; rounding/NaN/overflow outside the claim',
    'oracle for C4 (quick): the repository\'s own order-8 table (#if GEOGRAPHICLIB_GEODESIC_ORDER == 8 branch), executed to exact rational polynomials and truncated to total degree 5 — an independent second copy, not first principles',
    'accuracy of m12/M12/M21/S12, the addition rules, polygon closure and the DST quadrature of GeodesicExact are outside the claim (DESIGN.md §4)',
]

def prepare(ctx):
    H.ir_module(ctx, W); H.ir_module(ctx, W, defines=('GEOGRAPHICLIB_GEODESIC_ORDER=8',)); H.native(ctx, W)

def c4_terms(m, nsym, epssym, order):
    offs = H.offsets(m, 'Geodesic'); ex = rsym.Exec(m)
    p0 = ex.run_all('@' + G + '7C4coeffEv', lambda ex, mem: [ex.new_obj(mem, 'g', {offs['_n']: nsym})])
    assert len(p0) == 1
    g = p0[0].mem['g']
    p1 = ex.run_all('@' + GK + '3C4fEdPd', lambda ex, mem: [ex.new_obj(mem, 'g', g), epssym, ex.new_obj(mem, 'out')])
    assert len(p1) == 1
    out = p1[0].mem['out']
    return [out[8 * l] for l in range(order)]

def ob_c4(ctx):
    m6 = H.ir_module(ctx, W); m8 = H.ir_module(ctx, W, defines=('GEOGRAPHICLIB_GEODESIC_ORDER=8',))
    n, eps = z3.Real('n'), z3.Real('eps')
    code = c4_terms(m6, n, eps, 6)
    ref8 = c4_terms(m8, poly.Poly.var(2, 0), poly.Poly.var(2, 1), 8)
    specq = {l: ref8[l].trunc(5).coeffs() for l in range(6)}
    specs = {l: series.mono_poly_z3(specq[l], [n, eps]) for l in range(6)}
    nat = {'wrapper': W, 'fn': 'vf_C4f', 'sig': ['d', 'd', 'O8'], 'result': 'out'}
    return polyid.check(ctx, 'C4f', [(l, code[l]) for l in range(6)], specs, [n, eps], [n > -1, n < 1, eps > -1, eps < 1], nat, specq=specq,
                        functions=['GeographicLib::Geodesic::C4coeff', 'GeographicLib::Geodesic::C4f', 'GeographicLib::Math::polyval'])

def ob_c2(ctx):
    """_c2 = (a^2 + b^2 * atanh(e)/e)/2 for oblate, atan form for prolate: Geodesic constructor's expression as executed from the IR, with
    eatanhe opaque, equals the defining expression; EllipsoidArea = 4 pi c2"""
    raise rsym.Unsupported('not built yet')

def obligations(ctx):
    return [
        Ob('Q1.C4', ob_c4, '[REAL]', 'E2 rsym+z3', 'Geodesic::C4coeff + C4f (21 polynomials in n, eps) equal the order-8 series of the area integral truncated to total degree 5', timeout=300,
           bounds={'order': 6, 'n,eps': '(-1,1)'}),
    ]

def replay(rp):
    return polyid.replay(rp)

MANIFEST = {
    'engine': 'E2',
    'technique': 'symbolic execution of clang IR over z3 reals; polynomial identities in (n, eps) against the independent order-8 tables executed to exact rationals',
    'text': 'Bounded solver verdict on the real code: the area series C4 (C4coeff table + C4f evaluator, 21 polynomials) is executed symbolically from the IR and z3 decides equality, for all real n and eps, '
            'with the truncation of the order-8 series compiled from the same repository. Any wrong coefficient, divisor, offset or loop bound in the order-6 table is refuted with a concrete (n, eps) replayed on a g++ build.',
    'note': 'Exact-real semantics; the oracle is a second copy inside the repository (order-8 branch), so an error common to both tables is not detected; accuracy, addition rules, polygon closure, GeodesicExact DST area are not decided. '
            'Trusted: clang-14, vfw/irparse+rsym (validated each run against the native build), z3.',
}
