/* C16 harnesses (E1, FP mode P: IEEE operators precise; remainder/remquo/sin/cos/atan2/sqrt by contract) */
#ifdef FPMODE_G
#include "fp_G.h"
#define GADD(a,b) F_ADD(0,a,b)
#define GSUB(a,b) F_SUB(0,a,b)
#else
#include "fp_P.h"
#define GADD(a,b) ((a)+(b))
#define GSUB(a,b) ((a)-(b))
#endif
#include "cxx.c"
#ifdef VF_OPAQUE_MULDIV
/* hybrid mode for the two functions that scale by pi/180: the product/quotient is an arbitrary double that keeps sign and zero,
   and |atan2/degree| <= 45 when |atan2| <= fl(pi/4) (monotone, correctly rounded scaling; 45 = fl(pi/4)/fl(pi/180) is checked by signtest) */
double vf_muldiv(int site, int isdiv, double a, double b) {
  if (isnan(a) || isnan(b)) return VF_NAN;
  if (isdiv && b == 180.0 && a == 0x1.921fb54442d18p+1) return 0x1.1df46a2529d39p-6;    /* Math::degree() = fl(fl(pi)/180) */
  if (!isdiv && (b == 2.0 || b == 3.0)) return a * b;                                       /* small integer factors: precise */
  if (!isdiv && (a == 2.0 || a == 3.0)) return a * b;
  if (isdiv && b == 2.0) return a * 0.5;
  double r = nondet_double();
  __CPROVER_assume(!isnan(r));
  if (a == 0.0) return vf_copysign(0.0, (vf_d2bits(a) ^ vf_d2bits(b)) >> 63 ? -1.0 : 1.0);
  __CPROVER_assume((a > 0.0) == (r > 0.0) && r != 0.0);
  if (!isinf(a) && !isinf(b)) __CPROVER_assume(!isinf(r));
  if (!isdiv && b > 0.0174 && b < 0.0175) __CPROVER_assume(!(a <= 45.0 && a >= -45.0) || (r <= 0.7854 && r >= -0.7854));
  if (isdiv && b > 0.0174 && b < 0.0175) { __CPROVER_assume(!(a <= 0x1.921fb54442d18p-1 && a >= -0x1.921fb54442d18p-1) || (r <= 45.0 && r >= -45.0)); __CPROVER_assume(!isinf(r) || isinf(a)); }
  return r;
}
#endif
#include "gen.c"
double in_x, in_y; 
static int sameb(double a, double b) { return vf_d2bits(a) == vf_d2bits(b); }
static int sgn(double a) { return (int)(vf_d2bits(a) >> 63); }

void harness_angnormalize(void) {
  IN(in_x, nondet_double());
  double r = F__ZN13GeographicLib4Math12AngNormalizeIdEET_S2_(in_x);
  if (isnan(in_x) || isinf(in_x)) { __CPROVER_assert(isnan(r), "AngNormalize(NaN or inf) is NaN"); return; }
  __CPROVER_assert(r >= -180.0 && r <= 180.0, "AngNormalize result lies in [-180, 180]");
  if (in_x >= -180.0 && in_x <= 180.0) __CPROVER_assert(sameb(r, in_x), "AngNormalize is the identity on [-180, 180] (keeps -0 and +-180)");
  if (r == 0.0 || r == 180.0 || r == -180.0) __CPROVER_assert(sgn(r) == sgn(in_x), "a result of 0 or +-180 has the sign of the argument");
  VF_WITNESS("end of harness_angnormalize");
}

void harness_anground(void) {
  IN(in_x, nondet_double());
  double r = F__ZN13GeographicLib4Math8AngRoundIdEET_S2_(in_x);
  if (isnan(in_x)) { __CPROVER_assert(isnan(r), "AngRound(NaN) is NaN"); return; }
  __CPROVER_assert(sgn(r) == sgn(in_x), "AngRound keeps the sign (incl. -0)");
  double ax = in_x < 0 ? -in_x : in_x, ar = r < 0 ? -r : r;
  if (ax >= 0.0625) __CPROVER_assert(sameb(r, in_x), "AngRound is the identity for |x| >= 1/16");
  else {
    __CPROVER_assert(ar <= 0.0625, "|AngRound(x)| <= 1/16 for |x| < 1/16");
    __CPROVER_assert(ar - ax <= 0x1p-58 && ax - ar <= 0x1p-58, "AngRound moves |x| by at most 2^-58");
    __CPROVER_assert(ar == 0.0 || ar >= 0x1p-57, "tiny angles are rounded to a multiple of 2^-57 (0 or >= 2^-57)");
  }
  VF_WITNESS("end of harness_anground");
}

/* Knuth TwoSum (TAOCP 4.2.2 Thm B) with the roles a = v, b = u: s = a + b; bb = s - a; t = (a - (s - bb)) + (b - bb) */
void harness_sum(void) {
  IN(in_x, nondet_double()); IN(in_y, nondet_double());
  __CPROVER_assume(!isnan(in_x) && !isnan(in_y) && in_x > -0x1p1022 && in_x < 0x1p1022 && in_y > -0x1p1022 && in_y < 0x1p1022);   /* no intermediate overflow */
  double t = 7.0, s = F__ZN13GeographicLib4Math3sumIdEET_S2_S2_RS2_(in_x, in_y, (char*)&t);
  /* TwoSum as an operation sequence (TAOCP 4.2.2 Thm B, a = v, b = u): s = a + b; b' = s - a; a' = s - b'; t = -((b' - b) + (a' - a)) */
  double a = in_y, b = in_x, s2 = GADD(b, a);
  __CPROVER_assume(!isinf(s2));
  double bp = GSUB(s2, a), ap = GSUB(s2, bp), db = GSUB(bp, b), da = GSUB(ap, a), t2 = GSUB(0.0, GADD(db, da));
  __CPROVER_assert(sameb(s, s2), "sum returns the rounded sum");
  if (s2 != 0.0) __CPROVER_assert(sameb(t, t2), "the error term is the TwoSum error term");
  else __CPROVER_assert(sameb(t, s2), "for a zero sum the error term is that zero");
  VF_WITNESS("end of harness_sum");
}

void harness_angdiff(void) {
  IN(in_x, nondet_double()); IN(in_y, nondet_double());
  __CPROVER_assume(!isnan(in_x) && !isnan(in_y) && !isinf(in_x) && !isinf(in_y));
#ifdef SMALL
  __CPROVER_assume(in_x >= -180.0 && in_x <= 180.0 && in_y >= -180.0 && in_y <= 180.0);
#endif
  double e = 7.0, d = F__ZN13GeographicLib4Math7AngDiffIdEET_S2_S2_RS2_(in_x, in_y, (char*)&e);
#ifdef SMALL
  __CPROVER_assert(d >= -180.0 && d <= 180.0, "AngDiff result lies in [-180, 180]");
#endif
  if (sameb(in_x, in_y)) __CPROVER_assert(d == 0.0 && sgn(d) == 0 && e == 0.0, "AngDiff(x, x) is +0 with zero error term");
  if (in_x >= -180.0 && in_x <= 180.0 && in_y == 0.0 && in_x != 0.0) __CPROVER_assert(sameb(d, -in_x) && e == 0.0, "AngDiff(x, 0) = -x exactly for |x| <= 180");
  VF_WITNESS("end of harness_angdiff");
}

/* quadrant logic of sincosd: with remquo by contract and sin, cos arbitrary in [-1,1]: outputs are (+-s, +-c) permuted by q & 3 */
void harness_sincosd(void) {
  IN(in_x, nondet_double());
  double s = 7.0, c = 7.0;
  F__ZN13GeographicLib4Math7sincosdIdEEvT_RS2_S3_(in_x, (char*)&s, (char*)&c);
  if (isnan(in_x) || isinf(in_x)) { __CPROVER_assert(isnan(s) && isnan(c), "sincosd(NaN or inf) gives NaNs"); return; }
  __CPROVER_assert(s >= -1.0 && s <= 1.0 && c >= -1.0 && c <= 1.0, "sincosd outputs lie in [-1, 1]");
  __CPROVER_assert(!(c == 0.0 && sgn(c)), "cosd never returns -0");
  if (s == 0.0) __CPROVER_assert(sgn(s) == sgn(in_x), "a zero sine has the sign of the argument");
  if (in_x == 0.0) __CPROVER_assert(sameb(s, in_x) && c == 1.0, "sincosd(+-0) = (+-0, 1)");
  if (in_x == 45.0) __CPROVER_assert(s == 0x1.6a09e667f3bcdp-1 && c == 0x1.6a09e667f3bcdp-1, "sincosd(45) is (sqrt(1/2), sqrt(1/2)) correctly rounded");
  if (in_x == -45.0) __CPROVER_assert(s == -0x1.6a09e667f3bcdp-1 && c == 0x1.6a09e667f3bcdp-1, "sincosd(-45)");
  if (in_x == 30.0) __CPROVER_assert(s == 0.5 && c == 0x1.bb67ae8584caap-1, "sincosd(30) is (1/2, sqrt(3)/2) correctly rounded");
  if (in_x == -30.0) __CPROVER_assert(s == -0.5 && c == 0x1.bb67ae8584caap-1, "sincosd(-30)");
  VF_WITNESS("end of harness_sincosd");
}

void harness_atan2d(void) {
  IN(in_x, nondet_double()); IN(in_y, nondet_double());
  double r = F__ZN13GeographicLib4Math6atan2dIdEET_S2_S2_(in_y, in_x);
  if (isnan(in_x) || isnan(in_y)) { __CPROVER_assert(isnan(r), "atan2d of NaN is NaN"); return; }
  __CPROVER_assert(r >= -180.0 && r <= 180.0, "atan2d result lies in [-180, 180]");
  if (in_y == 0.0 && (in_x > 0.0 || (in_x == 0.0 && !sgn(in_x)))) __CPROVER_assert(sameb(r, in_y), "atan2d(+-0, x>=+0) = +-0");
  if (in_y == 0.0 && (in_x < 0.0 || (in_x == 0.0 && sgn(in_x)))) __CPROVER_assert(r == (sgn(in_y) ? -180.0 : 180.0), "atan2d(+-0, x<=-0) = +-180");
  if (in_x == 0.0 && in_y > 0.0) __CPROVER_assert(r == 90.0, "atan2d(y>0, +-0) = 90");
  if (in_x == 0.0 && in_y < 0.0) __CPROVER_assert(r == -90.0, "atan2d(y<0, +-0) = -90");
  if (in_y > 0.0) __CPROVER_assert(r >= 0.0, "upper half plane: angle in [0, 180]");
  if (in_y < 0.0) __CPROVER_assert(r <= 0.0, "lower half plane: angle in [-180, 0]");
  if (in_x > 0.0 && !isinf(in_x)) __CPROVER_assert(r >= -90.0 && r <= 90.0, "right half plane: angle in [-90, 90]");
  if (in_x < 0.0 && in_y != 0.0 && !isinf(in_x)) __CPROVER_assert(r >= 90.0 || r <= -90.0, "left half plane: |angle| >= 90");
  VF_WITNESS("end of harness_atan2d");
}
