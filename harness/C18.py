#!/usr/bin/env python3
"""C18 — grid codes: Geohash, GARS, Georef, OSGB (E1 parsers on arbitrary bytes; E2 encoders over the reals)"""
import os
from vfw.run import Ob
from vfw import e1, build
from harness import common as H

W = 'w_Grid'; HC = os.path.join(build.VERIF, 'harness', 'C18', 'c18.c')
STR = 'ERKNSt7__cxx1112basic_stringIcSt11char_traitsIcESaIcEEERdS9_Rib'
ROOT = {'gars': '@_ZN13GeographicLib4GARS7Reverse' + STR, 'geohash': '@_ZN13GeographicLib7Geohash7Reverse' + STR,
        'georef': '@_ZN13GeographicLib6Georef7Reverse' + STR, 'osgb': '@_ZN13GeographicLib4OSGB13GridReference' + STR}
ASSUMPTIONS = [
    'parser obligations (language, frame, memory safety) run in FP mode N: arithmetic results are arbitrary (NaN-tainted) doubles; the decoded numeric values are separate obligations',
    'std::string is modelled at its ABI (stubs/cxx.c); allocation failure is outside the claim',
    'exception message construction is cut at __cxa_allocate_exception',
    'encoder obligations (hybrid FP mode): each multiplication/division returns an arbitrary double within the bounds implied by monotone correctly rounded arithmetic (e.g. lon in [-180,180) => 12*lon in [-2160,2160)); the cell claim is stated on that computed value, so points within one rounding error of a cell edge are outside the claim',
    'Math::AngNormalize replaced by its contract (checked under C16)',
]

def prepare(ctx):
    H.ir_module(ctx, W)

def _cb(scheme, n, mode_p=False, timeout=300):
    def run(ctx):
        m = H.ir_module(ctx, W)
        defs = ['SLEN=%d' % n, 'VF_STR_MAX=%d' % (n + 2), 'VF_MEM_MAX=%d' % (n + 2)] + (['FPMODE_P'] if mode_p else [])
        return e1.cbmc_check(ctx, m, 'C18', [ROOT[scheme]], HC, function='harness_' + scheme, unwind=max(n + 4, 42), defines=defs, timeout=timeout)
    run.cbmc_timeout = timeout
    return run

LENS = {'gars': (range(0, 9), range(0, 10)), 'geohash': (range(0, 7), range(0, 21)), 'georef': (range(0, 11), range(0, 29)), 'osgb': (range(0, 9), range(0, 27))}
DOC = {'gars': 'GARS::Reverse', 'geohash': 'Geohash::Reverse', 'georef': 'Georef::Reverse', 'osgb': 'OSGB::GridReference(string)'}

def obligations(ctx):
    obs = []
    thorough = ctx['tier'] == 'thorough'
    for sch in ('gars', 'geohash', 'georef', 'osgb'):
        q, t = LENS[sch]
        for n in (t if thorough else q):
            obs.append(Ob('Q2.%s.len%d' % (sch, n), _cb(sch, n), '[BIT] FP mode N', 'E1 cgen+cbmc',
                          '%s on every byte string of length %d: accepted iff a valid code (case-insensitive), documented precision, INV -> NaN, GeographicErr only, outputs untouched on throw, no out-of-bounds access' % (DOC[sch], n),
                          tier='quick' if n in q else 'thorough', bounds={'string length': n, 'bytes': 'all 256 values incl. NUL'}))
    obs.append(Ob('Q1.gars.Forward', _fwd('gars', ['GH_MAXLEN=1', 'VF_STR_MAX=10', 'VF_MEM_MAX=10'], 34), '[BIT] hybrid FP', 'E1 cgen+cbmc',
                  'GARS::Forward: code of the containing cell (floor of the scaled, normalised position; 180 folded; pole in the last row), alphabet, length, prefix structure, NaN -> INVALID, |lat|>90 throws with output untouched, conversions in range',
                  timeout=630, bounds={'lat, lon': 'all doubles', 'prec': 'all ints'}))
    obs.append(Ob('Q1.geohash.Forward', _fwd('geohash', (['GH_MAXLEN=18', 'VF_STR_MAX=20', 'VF_MEM_MAX=20'] if thorough else ['GH_MAXLEN=4', 'GH_MAXLEN_ASSUME', 'VF_STR_MAX=10', 'VF_MEM_MAX=10']), 100 if thorough else 34), '[BIT] hybrid FP', 'E1 cgen+cbmc',
                  'Geohash::Forward: cell indices = floor(lon/loneps)+2^45 etc., characters = interleaved 5-bit groups in the base-32 alphabet, length, NaN -> invalid, frame, conversions in range',
                  timeout=630, bounds={'lat, lon': 'all doubles', 'len': '<= 4 quick, all thorough'}))
    obs.append(Ob('Q1.georef.Forward', _fwd('georef', ['GH_MAXLEN=1', 'GR_MAXPREC=0', 'VF_STR_MAX=10', 'VF_MEM_MAX=10'], 34, timeout=870), '[BIT] hybrid FP', 'E1 cgen+cbmc',
                  'Georef::Forward: tile, degree and minute-digit characters of the containing cell (truncation), alphabet, length, NaN -> INVALID, frame, conversions in range',
                  timeout=900, tier='thorough', bounds={'lat, lon': 'all doubles', 'prec': '<= 0 (tile and degree letters); the minute digits need 64-bit division by 10^k, not decidable by SAT within the budget: outside the claim'}))
    return obs

HF = os.path.join(build.VERIF, 'harness', 'C18', 'c18f.c')
FWD = {'gars': '@_ZN13GeographicLib4GARS7ForwardEddiRNSt7__cxx1112basic_stringIcSt11char_traitsIcESaIcEEE',
       'geohash': '@_ZN13GeographicLib7Geohash7ForwardEddiRNSt7__cxx1112basic_stringIcSt11char_traitsIcESaIcEEE',
       'georef': '@_ZN13GeographicLib6Georef7ForwardEddiRNSt7__cxx1112basic_stringIcSt11char_traitsIcESaIcEEE'}
ANG = '@_ZN13GeographicLib4Math12AngNormalizeIdEET_S2_'
def _fwd(scheme, defs, unwind, timeout=600):
    def run(ctx):
        m = H.ir_module(ctx, W)
        return e1.cbmc_check(ctx, m, 'C18', [FWD[scheme]], HF, stop=[ANG], function='harness_%s_fwd' % scheme, unwind=unwind,
                             defines=defs, timeout=timeout)
    run.cbmc_timeout = timeout
    return run

def replay(rp):
    return e1.replay(rp, W)

MANIFEST = {
    'engine': 'E1+E2',
    'technique': 'bounded model checking (cbmc) of C generated from the clang IR of Geohash/GARS/Georef/OSGB.cpp on arbitrary byte strings, against independent reference grammars; counterexamples replayed under UBSan/ASan',
    'text': 'Bounded solver verdicts on the real parsers: for every byte string up to the stated lengths, Reverse/GridReference accept exactly the valid codes of each scheme (case-insensitively), '
            'return the documented precision, map INV... to NaN, throw only GeographicErr and leave outputs untouched on throw, with no out-of-bounds access; encoder obligations over the reals.',
    'note': 'String lengths bounded as stated per obligation (quick: geohash<=6, GARS<=8, Georef<=10, OSGB<=8; thorough: maximum legal length + 2). FP mode N for the parsers. '
            'Points within one rounding error of a cell edge in IEEE arithmetic are outside the claim. Trusted: clang-14, vfw/cgen, cbmc 6.11, stubs/cxx.c.',
}
