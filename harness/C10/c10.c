/* C10 harness (E1): Utility::nummatch<double> (the parser's recognition of nan / inf spellings) on every byte string of a given length */
#include "fp_N.h"
#include "cxx.c"
double F__ZN13GeographicLib4Math3NaNIdEET_v(void) { return VF_NAN; }
double F__ZN13GeographicLib4Math8infinityIdEET_v(void) { return VF_INF; }
#include "gen.c"
#ifndef SLEN
#define SLEN 3
#endif
char in_s[SLEN + 1];
static int up(int c) { return (c >= 'a' && c <= 'z') ? c - 32 : c; }
/* does the upper-cased core t[0..n) equal the word w? */
static int is(const char* t, int n, const char* w) { int i = 0; for (; i < 10 && w[i]; i++) if (i >= n || t[i] != w[i]) return 0; return i == n; }
void harness_nummatch(void) {
  vf_string strobj; char* str = (char*)&strobj;
  for (int i = 0; i < SLEN; i++) IN(in_s[i], nondet_char());
  in_s[SLEN] = 0; S_P(str) = S_BUF(str); vf_str_init(str, in_s, SLEN);
  char before[SLEN + 1]; for (int i = 0; i <= SLEN; i++) before[i] = in_s[i];
  vf_exc = 0;
  double r = F__ZN13GeographicLib7Utility8nummatchIdEET_RKNSt7__cxx1112basic_stringIcSt11char_traitsIcESaIcEEE(str);
  __CPROVER_assert(vf_exc == 0, "nummatch does not throw");
  for (int i = 0; i <= SLEN; i++) __CPROVER_assert(S_P(str)[i] == before[i], "the argument string is unchanged");
  /* specification (documented spellings, case-insensitive): optional sign, then the word, then any number of trailing zeros */
  int neg = SLEN > 0 && in_s[0] == '-', p0 = (SLEN > 0 && (in_s[0] == '-' || in_s[0] == '+')) ? 1 : 0, p1 = SLEN;
  while (p1 > 0 && in_s[p1 - 1] == '0') p1--;
  char t[SLEN + 1]; int n = 0; for (int i = p0; i < p1; i++) t[n++] = (char)up(in_s[i]);
  int isnanw = is(t, n, "NAN") || is(t, n, "1.#QNAN") || is(t, n, "1.#SNAN") || is(t, n, "1.#IND") || is(t, n, "1.#R");
  int isinfw = is(t, n, "INF") || is(t, n, "1.#INF") || is(t, n, "INFINITY");
  if (SLEN < 3) { isnanw = 0; isinfw = 0; }
  if (isnanw) { __CPROVER_assert(isnan(r), "a nan spelling gives NaN"); VF_WITNESS("nan spelling"); }
  else if (isinfw) { __CPROVER_assert(isinf(r) && (r < 0) == neg, "an inf spelling gives the infinity of the written sign"); VF_WITNESS("inf spelling"); }
  else __CPROVER_assert(r == 0.0, "every other string gives 0 (not a special value)");
  VF_WITNESS("end of harness_nummatch");
}
