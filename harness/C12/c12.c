/* C12 harnesses (E1, FP mode U): mask independence and frame of GeodesicLine::GenPosition by a two-run relational proof.
   Arithmetic and libm calls are uninterpreted per call site (congruence: same operands => same result), so two runs of the same code
   on the same line object agree wherever the code performs the same operations; a mask that leaks into a value shows up as a difference. */
#include "fp_U.h"
#include "cxx.c"
double __CPROVER_uninterpreted_angnorm(double); double __CPROVER_uninterpreted_atan2d(double, double);
double __CPROVER_uninterpreted_sincosd_s(double); double __CPROVER_uninterpreted_sincosd_c(double);
double __CPROVER_uninterpreted_scs(int, double, double, long, int);
double F__ZN13GeographicLib4Math12AngNormalizeIdEET_S2_(double x) { return __CPROVER_uninterpreted_angnorm(x); }
double F__ZN13GeographicLib4Math3NaNIdEET_v(void) { return VF_NAN; }
double F__ZN13GeographicLib4Math6atan2dIdEET_S2_S2_(double y, double x) { return __CPROVER_uninterpreted_atan2d(y, x); }
void F__ZN13GeographicLib4Math7sincosdIdEEvT_RS2_S3_(double x, char* s, char* c) { *(double*)s = __CPROVER_uninterpreted_sincosd_s(x); *(double*)c = __CPROVER_uninterpreted_sincosd_c(x); }
static char* lineptr;
/* identity of a pointer argument: its offset when it points into the line object under consideration (the line or its copy), else its value */
#ifdef VF_REPLAY
static long relp(char* p) { return (p >= lineptr && p < lineptr + 4096) ? (long)(p - lineptr) : (long)p; }
#else
static long relp(char* p) { return __CPROVER_POINTER_OBJECT(p) == __CPROVER_POINTER_OBJECT(lineptr) ? (long)__CPROVER_POINTER_OFFSET(p) - (long)__CPROVER_POINTER_OFFSET(lineptr) : (long)p; }
#endif
#ifdef EXACT
#define LINE_T VT_class_GeographicLib__GeodesicLineExact
#define GENPOS F__ZNK13GeographicLib17GeodesicLineExact11GenPositionEbdjRdS1_S1_S1_S1_S1_S1_S1_
#define SETARC F__ZN13GeographicLib17GeodesicLineExact6SetArcEd
#define SETDIST F__ZN13GeographicLib17GeodesicLineExact11SetDistanceEd
#define OFF(x) (*(long*)&G_vf_off_GeodesicLineExact_##x)
double __CPROVER_uninterpreted_dst(double, double, long, int); double __CPROVER_uninterpreted_dD(long, double, double, double); double __CPROVER_uninterpreted_dE(long, double, double, double);
double __CPROVER_uninterpreted_dH(long, double, double, double); double __CPROVER_uninterpreted_dEinv(long, double, double);
/* the elliptic-function object and the DST coefficient array live inside the (unchanged) line object: pure functions of their arguments */
double F__ZN13GeographicLib3DST8integralEddPKdi(double a, double b, char* c, uint32_t n) { return __CPROVER_uninterpreted_dst(a, b, relp(c), (int)n); }
double F__ZNK13GeographicLib16EllipticFunction6deltaDEddd(char* e, double a, double b, double c) { return __CPROVER_uninterpreted_dD(relp(e), a, b, c); }
double F__ZNK13GeographicLib16EllipticFunction6deltaEEddd(char* e, double a, double b, double c) { return __CPROVER_uninterpreted_dE(relp(e), a, b, c); }
double F__ZNK13GeographicLib16EllipticFunction6deltaHEddd(char* e, double a, double b, double c) { return __CPROVER_uninterpreted_dH(relp(e), a, b, c); }
double F__ZNK13GeographicLib16EllipticFunction9deltaEinvEdd(char* e, double a, double b) { return __CPROVER_uninterpreted_dEinv(relp(e), a, b); }
#else
#define LINE_T VT_class_GeographicLib__GeodesicLine
#define GENPOS F__ZNK13GeographicLib12GeodesicLine11GenPositionEbdjRdS1_S1_S1_S1_S1_S1_S1_
#define SETARC F__ZN13GeographicLib12GeodesicLine6SetArcEd
#define SETDIST F__ZN13GeographicLib12GeodesicLine11SetDistanceEd
#define OFF(x) (*(long*)&G_vf_off_GeodesicLine_##x)
#endif
/* Geodesic::SinCosSeries is a pure function of its arguments and of the coefficient array, which lives in the (unchanged) line object */
double F__ZN13GeographicLib8Geodesic12SinCosSeriesEbddPKdi(uint8_t sinp, double sx, double cx, char* c, uint32_t n) { return __CPROVER_uninterpreted_scs(sinp & 1, sx, cx, relp(c), (int)n); }
int exact_calls;
#ifndef EXACT
double F__ZNK13GeographicLib17GeodesicLineExact11GenPositionEbdjRdS1_S1_S1_S1_S1_S1_S1_(char* t, uint8_t a, double s, uint32_t m, char* o1, char* o2, char* o3, char* o4, char* o5, char* o6, char* o7, char* o8) { exact_calls++; return nondet_double(); }
#endif
#include "gen.c"

#define LATITUDE (1u<<7)
#define LONGITUDE (1u<<8)
#define AZIMUTH (1u<<9)
#define DISTANCE (1u<<10)
#define DISTANCE_IN (1u<<11)
#define REDUCEDLENGTH (1u<<12)
#define GEODESICSCALE (1u<<13)
#define AREA (1u<<14)
#define LONG_UNROLL (1u<<15)
#define OUT_MASK 0xFF80u
static const unsigned outbit[8] = {LATITUDE, LONGITUDE, AZIMUTH, DISTANCE, REDUCEDLENGTH, GEODESICSCALE, GEODESICSCALE, AREA};
static int sameb(double a, double b) { return vf_d2bits(a) == vf_d2bits(b); }

unsigned in_m1, in_m2; int in_arcmode; double in_s; double in_i1[8], in_i2[8];
unsigned in_caps;
#ifdef VF_REPLAY
/* replay on the real code: the discrete part of the counterexample (masks, capabilities, arc mode) is kept; the line is a real
   GeodesicLine built by the real constructor for each of a few generic geodesics (the abstraction has no concrete line to offer) */
extern void vf_make_line(char* buf, double a, double f, double lat1, double lon1, double azi1, unsigned caps);
static char in_line[4096];
static const double smp[4][6] = {{6378137.0, 1/298.257223563, 40.0, 10.0, 30.0, 1.5e6}, {6.4e6, 1/50.0, -33.0, 100.0, 100.0, 7.3e6}, {6.4e6, -1/100.0, 5.0, -70.0, -140.0, 1.1e7}, {1.0, 0.0, 60.0, 0.0, 45.0, 0.7}};
static void harness_genposition_1(int k);
void harness_genposition(void) { for (int k = 0; k < 4; k++) harness_genposition_1(k); }
static void harness_genposition_1(int k) {
  /* capability sets reachable through the public mask enum carry the series bits of each output bit */
  unsigned cp = in_caps;
  if (cp & (1u<<8)) cp |= 1u<<3; if (cp & (1u<<10)) cp |= 1u<<0; if (cp & (1u<<11)) cp |= (1u<<0)|(1u<<1); if (cp & ((1u<<12)|(1u<<13))) cp |= (1u<<0)|(1u<<2); if (cp & (1u<<14)) cp |= 1u<<4;
  lineptr = in_line; vf_make_line(in_line, smp[k][0], smp[k][1], smp[k][2], smp[k][3], smp[k][4], cp);
  unsigned caps = *(unsigned*)(lineptr + CAPS_OFF);
  in_s = in_arcmode ? 77.0 : smp[k][5];
#else
LINE_T in_line; LINE_T nondet_line(void);
void harness_genposition(void) {
  /* in_line: arbitrary line state (every member arbitrary, incl. caps); only _exact is fixed to false */
  in_line = nondet_line();
  lineptr = (char*)&in_line;
#ifndef EXACT
  *(unsigned char*)(lineptr + OFF(_exact)) = 0;
#endif
  unsigned caps = *(unsigned*)(lineptr + OFF(_caps));
  in_caps = caps;
#endif
  IN(in_m1, nondet_uint()); IN(in_m2, nondet_uint()); IN(in_arcmode, nondet_int() & 1); IN(in_s, nondet_double());
  double o1[8], o2[8];
  for (int i = 0; i < 8; i++) { IN(in_i1[i], nondet_double()); IN(in_i2[i], nondet_double()); o1[i] = in_i1[i]; o2[i] = in_i2[i]; }
  vf_exc = 0;
  double r1 = GENPOS(lineptr, (uint8_t)in_arcmode, in_s, in_m1, (char*)&o1[0], (char*)&o1[1], (char*)&o1[2], (char*)&o1[3], (char*)&o1[4], (char*)&o1[5], (char*)&o1[6], (char*)&o1[7]);
  double r2 = GENPOS(lineptr, (uint8_t)in_arcmode, in_s, in_m2, (char*)&o2[0], (char*)&o2[1], (char*)&o2[2], (char*)&o2[3], (char*)&o2[4], (char*)&o2[5], (char*)&o2[6], (char*)&o2[7]);
#ifndef VF_REPLAY
  __CPROVER_assert(vf_exc == 0 && exact_calls == 0, "GenPosition does not throw; series path");
#endif
  unsigned e1 = in_m1 & caps & OUT_MASK, e2 = in_m2 & caps & OUT_MASK;
  int located = caps != 0 && (in_arcmode || (caps & DISTANCE_IN & OUT_MASK));
  if (!located) {
    __CPROVER_assert(isnan(r1) && isnan(r2), "a line that cannot locate the point returns NaN");
    for (int i = 0; i < 8; i++) __CPROVER_assert(sameb(o1[i], in_i1[i]) && sameb(o2[i], in_i2[i]), "... and writes nothing");
    VF_WITNESS("not located"); return;
  }
  __CPROVER_assert(sameb(r1, r2), "returned arc length/distance does not depend on the output mask");
  for (int i = 0; i < 8; i++) {
    if (!(e1 & outbit[i])) __CPROVER_assert(sameb(o1[i], in_i1[i]), "an output that was not requested (or that the line lacks the capability for) is left untouched");
    if ((e1 & outbit[i]) && (e2 & outbit[i]) && (i != 1 || ((e1 ^ e2) & LONG_UNROLL) == 0))
      __CPROVER_assert(sameb(o1[i], o2[i]), "the value of a requested output does not depend on which other outputs are requested");
  }
  VF_WITNESS("end of harness_genposition");
}


/* third point: SetArc / SetDistance store (a13, s13) consistent with GenPosition on the same line; a line without the DISTANCE
   capability never keeps a stale distance */
double in_a;
void harness_setpoint(void) {
#ifdef VF_REPLAY
  for (int k = 0; k < 4; k++) {
  unsigned cp = in_caps;
  if (cp & (1u<<8)) cp |= 1u<<3; if (cp & (1u<<10)) cp |= 1u<<0; if (cp & (1u<<11)) cp |= (1u<<0)|(1u<<1); if (cp & ((1u<<12)|(1u<<13))) cp |= (1u<<0)|(1u<<2); if (cp & (1u<<14)) cp |= 1u<<4;
  lineptr = in_line; vf_make_line(in_line, smp[k][0], smp[k][1], smp[k][2], smp[k][3], smp[k][4], cp);
  /* history: a distance was stored before (any earlier SetDistance / DirectLine) */
  *(double*)(lineptr + S13_OFF) = 2500000.0; *(double*)(lineptr + A13_OFF) = 22.0;
  unsigned caps = *(unsigned*)(lineptr + CAPS_OFF); long oa = A13_OFF, os = S13_OFF;
  static char copy[4096]; memcpy(copy, in_line, sizeof copy);
  in_a = in_arcmode ? 33.0 : smp[k][5];
#else
  in_line = nondet_line(); lineptr = (char*)&in_line;
#ifndef EXACT
  *(unsigned char*)(lineptr + OFF(_exact)) = 0;
#endif
  unsigned caps = *(unsigned*)(lineptr + OFF(_caps)); in_caps = caps; long oa = OFF(_a13), os = OFF(_s13);
  LINE_T copyobj = in_line; char* copy = (char*)&copyobj;
  IN(in_a, nondet_double()); IN(in_arcmode, nondet_int() & 1);
#endif
  vf_exc = 0;
  double t[8] = {0, 0, 0, 0, 0, 0, 0, 0}, s12ref = VF_NAN, aref;
  if (in_arcmode) {
    SETARC(lineptr, in_a);
    lineptr = copy; aref = GENPOS(copy, 1, in_a, DISTANCE, (char*)&t[0], (char*)&t[1], (char*)&t[2], (char*)&s12ref, (char*)&t[4], (char*)&t[5], (char*)&t[6], (char*)&t[7]);
    lineptr = (char*)&in_line;
    __CPROVER_assert(sameb(*(double*)(lineptr + oa), in_a), "SetArc stores the arc length");
    __CPROVER_assert(sameb(*(double*)(lineptr + os), s12ref), "SetArc stores the distance GenPosition reports for that arc, or NaN when the line cannot compute a distance (no stale value)");
  } else {
    SETDIST(lineptr, in_a);
    lineptr = copy; aref = GENPOS(copy, 0, in_a, 0u, (char*)&t[0], (char*)&t[1], (char*)&t[2], (char*)&t[3], (char*)&t[4], (char*)&t[5], (char*)&t[6], (char*)&t[7]);
    lineptr = (char*)&in_line;
    __CPROVER_assert(sameb(*(double*)(lineptr + os), in_a), "SetDistance stores the distance");
    __CPROVER_assert(sameb(*(double*)(lineptr + oa), aref), "SetDistance stores the arc length GenPosition reports for that distance (NaN when it cannot)");
  }
#ifdef VF_REPLAY
  }
#endif
  VF_WITNESS("end of harness_setpoint");
}
